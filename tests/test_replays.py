"""Plain unit tests (no explorer) replaying every fixed defect and every known finding against
the tree under check ($VERIF_REPO, default /repo).

    cd /verif && /venv/bin/python -m pytest -q tests/test_replays.py

* test_fixed_*  pass on the repaired tree and fail again if the defect returns;
* test_known_*  are marked expectedFailure: they state what the property demands and fail as
  long as the known finding is there (an unexpected success means the finding is gone and
  known-findings.txt should be updated).
"""
import os
import shutil
import sys
import tempfile
import unittest
import warnings

REPO = os.environ.get("VERIF_REPO", "/repo")
sys.path.insert(0, REPO)
sys.path.insert(0, os.path.dirname(os.path.dirname(os.path.abspath(__file__))))
warnings.simplefilter("ignore")

from traph import Traph  # noqa: E402
from traph.helpers import lru_variations  # noqa: E402
import traph.traph_iterator_state as tis  # noqa: E402
from mc.lru import RULES, A, Ax, Ab, Az, Aw, Awx, S, Sx, Sw, Bb, long_stem  # noqa: E402
from mc import rawdec  # noqa: E402


class Base(unittest.TestCase):
    def setUp(self):
        self.dir = tempfile.mkdtemp(prefix="traph-replay-", dir="/dev/shm" if os.path.isdir("/dev/shm") else None)
        self.opened = []

    def tearDown(self):
        for t in self.opened:
            try:
                t.close()
            except Exception:
                pass
        shutil.rmtree(self.dir, ignore_errors=True)

    def traph(self, default="domain", rules=None, folder="idx", memory=False):
        t = Traph(
            folder=None if memory else os.path.join(self.dir, folder),
            default_webentity_creation_rule=RULES[default],
            webentity_creation_rules={a: RULES[k] for a, k in (rules or {}).items()},
        )
        self.opened.append(t)
        return t


class FixedDefects(Base):
    def test_fixed_C01_add_pages_uncrawled(self):
        t = self.traph("never")
        t.add_pages([Aw, Ax], crawled=False)
        self.assertEqual(sorted((l, n.is_crawled()) for n, l in t.pages_iter()), [(Aw, False), (Ax, False)])
        self.assertEqual(t.count_crawled_pages(), 0)

    def test_fixed_C02_C19_single_tail_block(self):
        t = self.traph("never")
        lru = A + long_stem(75)
        t.add_page(lru)
        t.lru_trie_file.flush()
        data = open(t.lru_trie_path, "rb").read()
        # header + s:http| + h:com| + h:a| + head + ONE tail
        self.assertEqual(len(data), 128 * 6)
        self.assertEqual(rawdec.check_trie(data).errors, [])

    def test_fixed_C15_memory_constructor_rules(self):
        f = self.traph("domain", {A: "path1"})
        m = self.traph("domain", {A: "path1"}, memory=True)
        rf, rm = f.add_page(Ax), m.add_page(Ax)
        self.assertEqual(rf.created_webentities, rm.created_webentities)
        self.assertIn(Ax, [p for pl in rm.created_webentities.values() for p in pl])

    def test_fixed_C15_memory_multiblock_stem(self):
        m = self.traph("never", memory=True)
        lru = A + long_stem(149)
        m.add_page(lru)
        self.assertEqual([l for _, l in m.pages_iter()], [lru])

    def test_fixed_C15_map_sees_last_request(self):
        t = self.traph("domain", {A: "path1"})
        t.index_batch_crawl({Ax + b"p:y|": [Ax, Ax + b"p:y|", Bb], Bb: []})
        mm = t.lru_trie_storage.map()
        blocks = []
        off = 0
        while True:
            b = mm.read(off)
            if not b:
                break
            blocks.append(bytes(b))
            off += 128
        mm.release()
        t.lru_trie_file.flush()
        self.assertEqual(b"".join(blocks), open(t.lru_trie_path, "rb").read())

    def test_fixed_C10_pagelinks_token_across_prefixes(self):
        t = self.traph("domain")
        for p, c in ((A, False), (Ab, False), (Az, True), (Sx, False), (S + b"p:k|", True), (Awx, False)):
            t.add_page(p, crawled=c)
        t.add_links([(Ab, Sx), (Sx, Ab), (Awx, Bb), (Az, Az)])
        ref = sorted(map(tuple, t.get_webentity_pagelinks(1, [S, A, Aw, Sw], include_internal=True, include_outbound=False)))
        tok, acc = None, []
        for _ in range(20):
            r = t.paginate_webentity_pagelinks(1, [S, A, Aw, Sw], include_internal=True, include_outbound=False, source_page_count=1, pagination_token=tok)
            acc += [tuple(x) for x in r["pagelinks"]]
            if r["done"]:
                break
            tok = r["token"]
        else:
            self.fail("pagination chain does not end")
        self.assertEqual(sorted(acc), ref)

    def test_fixed_C18_head_without_tail(self):
        t = self.traph("domain")
        t.add_page(A)
        t.close()
        path = os.path.join(self.dir, "idx", "lru_trie.dat")
        # a head block announcing a tail that never reached the file
        import struct

        flags = (1 << 7) | (1 << 5)
        head = struct.pack("75pBI6Q", (b"p:" + b"a" * 72), flags, 0, 0, 0, 0, 0, 0, 0)
        with open(path, "ab") as f:
            f.write(head)
        t2 = self.traph("domain")
        self.assertEqual(t2.count_pages(), 1)
        self.assertEqual(t2.count_crawled_pages(), 0)

    def test_fixed_C17_variations(self):
        self.assertEqual(lru_variations(b"s:http|"), [b"s:http|", b"s:https|"])
        v = lru_variations(b"s:https|h:com|p:s:http|")
        self.assertEqual(set(v), {b"s:https|h:com|p:s:http|", b"s:http|h:com|p:s:http|"})
        for m in v:
            self.assertEqual(set(lru_variations(m)), set(v))


class KnownFindings(Base):
    @unittest.expectedFailure
    def test_known_C20_unlinked_page_has_indegree_zero(self):
        t = self.traph("domain")
        t.add_page(Awx)
        ans = t.get_webentity_most_linked_pages(1, [A, S, Aw, Sw], pages_count=1)
        self.assertEqual([(d["lru"], d["indegree"]) for d in ans], [(Awx, 0)])

    def _interleave(self, make_query, trace):
        """crawlD + rule(A, path1) + a query on webentity 1, advanced per `trace`."""
        old = tis.TraphIteratorState.should_yield

        def always(self_, yield_frequency=1000):
            self_.n_iterations += 1
            return True

        tis.TraphIteratorState.should_yield = always
        try:
            t = self.traph("domain", memory=True)
            Axy = Ax + b"p:y|"
            for p, c in ((A, False), (Ax, True), (Axy, False), (Ab, False), (Aw, False), (Sx, True)):
                t.add_page(p, crawled=c)
            t.create_webentity([Ax])
            t.add_links([(Ax, Ab), (Ax, Ab), (Ab, Ax), (Axy, Axy), (Ax, Axy), (A, Ax), (Sx, A), (Aw, Ab)])
            LONG = A + long_stem(149)
            t.add_page(LONG, crawled=True)
            t.add_links([(LONG, Ab), (Az, LONG)])
            P1, P2 = Ab + b"p:1|", Ab + b"p:2|"
            gens = [
                t.index_batch_crawl_iter({Ab: [P1, Az], Az: [P2], P2: [Ab + b"p:3|"]}, 1),
                t.add_webentity_creation_rule_iter(A, RULES["path1"]),
                make_query(t),
            ]
            res = [None] * 3
            moments = []
            for i in trace:
                st = next(gens[i])
                if st.done:
                    res[i] = st.result
                moments.append(t)
            return t, res
        finally:
            tis.TraphIteratorState.should_yield = old

    @unittest.expectedFailure
    def test_known_C16_page_created_below_prefix_attached_during_walk(self):
        WE1 = [A, S, Aw, Sw]
        trace = [2, 0, 2, 1, 1, 1, 1, 1, 1, 1, 1, 1, 0, 0, 0, 0, 0, 0, 0, 0, 2, 2, 2, 2, 2, 2]
        t, res = self._interleave(lambda t: t.get_webentity_pages_iter(1, WE1), trace)
        listed = {d["lru"] for d in res[2]}
        # Ab p:2| was created after Ab had become a webentity of its own: it never belonged to 1
        self.assertNotIn(Ab + b"p:2|", listed)


    @unittest.expectedFailure
    def test_known_C16_link_missed_when_an_end_changes_webentity_during_walk(self):
        WE1 = [A, S, Aw, Sw]
        LONG = A + long_stem(149)
        trace = [1, 1, 1, 1, 1, 2, 2, 2, 2, 0, 0, 0, 0, 0, 0, 0, 0, 0, 2, 2, 2, 1, 1, 1]
        t, res = self._interleave(lambda t: t.get_webentity_pagelinks_iter(1, WE1, include_inbound=True, include_internal=True, include_outbound=True), trace)
        # Az -> LONG qualified at every step boundary (first as internal, then as inbound)
        self.assertIn((Az, LONG), {(a, b) for a, b, w in res[2]})


if __name__ == "__main__":
    unittest.main()
