"""World = one real Traph + the reference model in lock-step.

Ops are plain tuples (bytes inside), JSON-serialisable through mc.codec.  `apply` executes
one op on the implementation, records what was observed in a `Trans`, predicts what the
model expects, and lets the model adopt reported ids (DESIGN 4.3)."""
import os

from . import env
from . import lru as L
from .model import Model


class Cfg(object):
    """Index configuration: default rule kind, constructor rules {anchor: kind}, back-end."""

    def __init__(self, default="never", rules=None, backend="file", overwrite=False, name=None, encoding="utf-8", str_rules=False, query_str=False):
        self.default = default
        self.rules = dict(rules or {})
        self.backend = backend
        self.overwrite = overwrite
        self.encoding = encoding  # constructor argument `encoding`
        self.str_rules = str_rules  # rule anchors handed to the constructor as str
        self.query_str = query_str  # oracles hand LRUs / prefixes to queries as str
        self.name = name or "%s/%s/%s%s" % (
            default,
            ",".join("%s:%s" % (L.show(a), k) for a, k in sorted(self.rules.items())) or "-",
            backend,
            "+ow" if overwrite else "",
        ) + ("" if encoding == "utf-8" else "/" + encoding) + ("/str-rules" if str_rules else "") + ("/str-queries" if query_str else "")

    def to_json(self):
        return {
            "default": self.default,
            "rules": [[a.decode("latin-1"), k] for a, k in sorted(self.rules.items())],
            "backend": self.backend,
            "overwrite": self.overwrite,
            "encoding": self.encoding,
            "str_rules": self.str_rules,
            "query_str": self.query_str,
        }

    @staticmethod
    def from_json(d):
        return Cfg(
            d["default"],
            {a.encode("latin-1"): k for a, k in d["rules"]},
            d.get("backend", "file"),
            d.get("overwrite", False),
            encoding=d.get("encoding", "utf-8"),
            str_rules=d.get("str_rules", False),
            query_str=d.get("query_str", False),
        )


class Trans(object):
    __slots__ = (
        "op",
        "exc",
        "exc_kind",
        "expect_refusal",
        "nb_created_pages",
        "created",
        "pred_new_pages",
        "pred_created",
        "pred_rule_outcomes",
        "max_id_before",
        "issued_before",
        "ret",
        "extra",
    )

    def __init__(self, op):
        self.op = op
        self.exc = None  # repr of exception raised by the implementation
        self.exc_kind = None  # 'traph' | 'other'
        self.expect_refusal = False
        self.nb_created_pages = None
        self.created = None  # {id: [prefixes]} from the write report
        self.pred_new_pages = None
        self.pred_created = None  # list of sorted prefix lists
        self.pred_rule_outcomes = None
        self.max_id_before = 0
        self.issued_before = ()
        self.ret = None
        self.extra = {}

    @property
    def unexpected_failure(self):
        """The implementation failed although the model expected success (or failed with
        something else than the library's own error)."""
        if self.exc is None:
            return False
        if self.exc_kind == "other":
            return True
        return not self.expect_refusal

    @property
    def missing_refusal(self):
        return self.exc is None and self.expect_refusal


class Disabled(Exception):
    pass


class World(object):
    def __init__(self, cfg, folder=None, predict_rules=False):
        ns = env.load()
        env.reset_process_state()
        self.ns = ns
        self.cfg = cfg
        self.observer = None  # callable(world) run by the 'obs' letter (set by the check)
        self.last_obs = None  # argument of the last 'resolve' letter
        self.TraphException = ns["TraphException"]
        self.predict_rules = predict_rules
        self.folder = None
        if cfg.backend == "file":
            self.folder = folder or env.fresh_folder()
            env.wipe(self.folder)
        self.m = Model(cfg.default, cfg.rules)
        self.broken = None  # set to a reason when lock-step is lost
        self.t = self._open(cfg.default, cfg.rules, overwrite=cfg.overwrite)
        self.ntrans = 0
        # lifecycle operations (reopen / clear) so far, and whether the last op was one:
        # part of the state key, since the in-RAM part of the index (header cache, file
        # objects) is rebuilt by them while the bytes stay the same
        self.nlife = 0
        self.last_life = False

    # ------------------------------------------------------------------ plumbing
    def _open(self, default, rules, overwrite=False):
        enc = self.cfg.encoding
        return self.ns["Traph"](
            folder=self.folder,
            overwrite=overwrite,
            encoding=enc,
            default_webentity_creation_rule=L.RULES[default],
            webentity_creation_rules={(a.decode(enc) if self.cfg.str_rules else a): L.RULES[k] for a, k in rules.items()},
        )

    def close(self):
        try:
            self.t.close()
        except Exception:
            pass
        if self.folder:
            env.wipe(self.folder)
        for other in getattr(self, "companions", ()):
            other.close()

    def store_bytes(self):
        t = self.t
        if self.folder is None:
            return bytes(t.lru_trie_storage.array), bytes(t.links_store_storage.array)
        t.lru_trie_file.flush()
        t.link_store_file.flush()
        with open(t.lru_trie_path, "rb") as f:
            a = f.read()
        with open(t.link_store_path, "rb") as f:
            b = f.read()
        return a, b

    def key(self):
        a, b = self.store_bytes()
        return (a, b, self.m.canon(), b"L%d%d" % (self.nlife, self.last_life))

    # ------------------------------------------------------------------ ops
    def apply(self, op):
        """Apply op to implementation and model. Raises Disabled when op is not enabled in
        the current model state (nothing has been executed then)."""
        m = self.m
        tr = Trans(op)
        tr.max_id_before = m.max_id
        tr.issued_before = tuple(m.issued)
        kind = op[0]
        fn = getattr(self, "_op_" + kind)
        call = fn(op, tr)  # model-side preparation; returns a thunk for the implementation
        try:
            rep = call()
        except self.TraphException as e:
            tr.exc = "TraphException(%s)" % (str(e)[:120],)
            tr.exc_kind = "traph"
            rep = None
        except Exception as e:  # implementation-only failure
            tr.exc = "%s(%s)" % (type(e).__name__, str(e)[:120])
            tr.exc_kind = "other"
            rep = None
        self.ntrans += 1
        self.last_life = kind in ("reopen", "clear", "obs", "resolve", "reopen_forget")
        if self.last_life:
            self.nlife += 1
        tr.ret = rep
        if rep is not None and hasattr(rep, "created_webentities"):
            tr.nb_created_pages = rep.nb_created_pages
            tr.created = {k: list(v) for k, v in rep.created_webentities.items()}
            m.adopt(tr.created)
        post = tr.extra.pop("post", None)
        if tr.exc is None:
            if tr.expect_refusal:
                self.broken = "missing refusal on %r" % (kind,)
            elif post:
                post()
        else:
            if tr.unexpected_failure:
                self.broken = "unexpected failure %s on %r" % (tr.exc, kind)
        return tr

    # str arguments --------------------------------------------------------
    def _op_as_str(self, op, tr):
        """The inner request with every LRU handed over as str instead of bytes (the API encodes
        them); the model keeps working on bytes."""
        _, inner = op
        self._str = True
        try:
            return getattr(self, "_op_" + inner[0])(inner, tr)
        finally:
            self._str = False

    def _x(self, lru):
        return lru.decode(self.cfg.encoding) if getattr(self, "_str", False) else lru

    def q(self, lru):
        """An LRU as the oracles hand it to a query: bytes, or str when the configuration says so."""
        return lru.decode(self.cfg.encoding) if self.cfg.query_str else lru

    def _op_as_iter(self, op, tr):
        """add_links handed a one-shot iterator instead of a list; a crawl batch whose target
        collections are one-shot iterators."""
        _, inner = op
        if inner[0] == "crawl":
            self._op_crawl(inner, tr)
            data = {self._x(s_): iter([self._x(t_) for t_ in tgts]) for s_, tgts in inner[1]}
            return lambda: self.t.index_batch_crawl(data, 1)
        assert inner[0] == "links"
        thunk = self._op_links(inner, tr)
        pairs = [(self._x(a), self._x(b)) for a, b in inner[1]]
        return lambda: self.t.add_links(iter(pairs))

    def _op_crawl_alias(self, op, tr):
        """A crawl batch naming the same source page twice in one mapping, once as bytes and
        once as str (two dictionary keys, one page)."""
        _, src, tg1, tg2 = op
        seq = [(src, True)] + [(t, False) for t in tg1] + [(t, False) for t in tg2]
        tr.pred_new_pages, tr.pred_created = self.m.insert_pages(seq)
        for t in tuple(tg1) + tuple(tg2):
            self.m.links[(src, t)] += 1
        data = {src: list(tg1), src.decode(self.cfg.encoding): list(tg2)}
        return lambda: self.t.index_batch_crawl(data, 1)

    # page-like ------------------------------------------------------------
    def _op_page(self, op, tr):
        _, lru, crawled = op
        tr.pred_new_pages, tr.pred_created = self.m.insert_pages([(lru, crawled)])
        arg = self._x(lru)
        return lambda: self.t.add_page(arg, crawled=crawled)

    def _op_pages(self, op, tr):
        _, lrus, crawled = op
        tr.pred_new_pages, tr.pred_created = self.m.insert_pages([(l, crawled) for l in lrus])
        args = [self._x(l) for l in lrus]
        return lambda: self.t.add_pages(args, crawled=crawled)

    def _op_links(self, op, tr):
        _, pairs = op
        order = []
        for s, t in pairs:
            for x in (s, t):
                if x not in order:
                    order.append(x)
        tr.pred_new_pages, tr.pred_created = self.m.insert_pages([(x, False) for x in order])
        for s, t in pairs:
            self.m.links[(s, t)] += 1
        args = [(self._x(a), self._x(b)) for a, b in pairs]
        return lambda: self.t.add_links(args)

    def _op_crawl(self, op, tr):
        _, items = op
        seq = []
        for s, tgts in items:
            seq.append((s, True))
            for t in tgts:
                seq.append((t, False))
        tr.pred_new_pages, tr.pred_created = self.m.insert_pages(seq)
        for s, tgts in items:
            for t in tgts:
                self.m.links[(s, t)] += 1
        data = {self._x(s): [self._x(t) for t in tgts] for s, tgts in items}
        assert len(data) == len(items), "crawl op with duplicate source"
        return lambda: self.t.index_batch_crawl(data, 1)

    def _op_pcrawl(self, op, tr):
        """A crawl batch advanced by `nsteps` generator steps and then abandoned (the request
        is never resumed). The model cannot predict a partial effect: it ADOPTS the pages,
        links and attached prefixes from the implementation afterwards, so only twin / id
        oracles (C11, C12) are meaningful across this letter."""
        _, items, nsteps = op
        data = {s: list(tgts) for s, tgts in items}
        m = self.m

        def call():
            gen = self.t.index_batch_crawl_iter(data, 1)
            for _ in range(nsteps):
                st = next(gen)
                if st.done:
                    break
            gen.close()
            return True

        def post():
            t = self.t
            m.pages = {lru: bool(n.is_crawled()) for n, lru in t.pages_iter()}
            m.named.update(m.pages)
            m.links.clear()
            for p in list(m.pages):
                for s_, t_, w_ in t.get_page_links(p, include_inbound=False, include_internal=True, include_outbound=True):
                    m.links[(s_, t_)] += w_
            for n, lru in t.webentity_prefix_iter():
                wid = n.webentity()
                if m.prefix.get(lru) != wid:
                    m.prefix[lru] = wid
                    m.named.add(lru)
                    if wid not in m.issued:
                        m.issued.append(wid)
                    m.max_id = max(m.max_id, wid)

        tr.extra["post"] = post
        return call

    # webentity edits ------------------------------------------------------
    def _nth_id(self, idx):
        ids = self.m.live_ids()
        if idx >= len(ids):
            raise Disabled()
        return ids[idx]

    def _op_create(self, op, tr):
        _, prefs = op
        m = self.m
        for p in prefs:
            m.named.add(p)
        tr.expect_refusal = any(p in m.prefix for p in prefs)
        tr.pred_created = [] if tr.expect_refusal else [sorted(prefs)]
        args = [self._x(p) for p in prefs]
        return lambda: self.t.create_webentity(args)

    def _op_delete(self, op, tr):
        _, idx, mode = op
        m = self.m
        wid = self._nth_id(idx)
        pl = m.prefixes_by_id()[wid]
        if mode == "all":
            use, arg = pl, wid
        elif mode == "first":
            use, arg = pl[:1], wid
        elif mode == "wrongid":
            use, arg = pl, wid + 1000
            tr.expect_refusal = True
        elif mode == "plusforeign":
            # the webentity's own prefixes followed by one it does not own: refused as a
            # whole, nothing may have been unset
            foreign = [p for p, w_ in sorted(m.prefix.items()) if w_ != wid]
            extra = foreign[0] if foreign else (pl[0] + b"p:nobody|")
            use, arg = pl + [extra], wid
            tr.expect_refusal = True
        else:
            raise ValueError(mode)

        def post():
            for p in use:
                del m.prefix[p]

        tr.extra["post"] = post
        tr.extra["wid"] = wid
        return lambda: self.t.delete_webentity(arg, list(use))

    def _op_create_many(self, op, tr):
        """n creation requests in a row (ids cross thresholds such as 256 that a handful of
        creations never reaches)."""
        _, base, n = op
        m = self.m
        prefs = [base + b"p:%04d|" % i for i in range(n)]
        if any(p in m.prefix for p in prefs):
            raise Disabled()
        for p in prefs:
            m.named.add(p)

        def call():
            last = None
            for p in prefs:
                last = self.t.create_webentity([p])
                m.adopt({k: list(v) for k, v in last.created_webentities.items()})
            return True

        return call

    def _op_addprefix(self, op, tr):
        _, p, idx = op
        m = self.m
        wid = idx[1] if isinstance(idx, tuple) else self._nth_id(idx)  # ("id", n): caller-chosen id
        m.named.add(p)
        tr.expect_refusal = p in m.prefix

        def post():
            m.prefix[p] = wid

        tr.extra["post"] = post
        return lambda: self.t.add_prefix_to_webentity(p, wid)

    def _rm_args(self, p, mode):
        m = self.m
        owner = m.prefix.get(p)
        if mode == "noid":
            return (p,), False
        if mode == "right":
            if owner is None:
                raise Disabled()
            return (p, owner), False
        if mode == "wrong":
            return (p, (owner or 0) + 1000), True
        raise ValueError(mode)

    def _op_rmprefix(self, op, tr):
        _, p, mode = op
        m = self.m
        args, refuse = self._rm_args(p, mode)
        m.named.add(p)
        tr.expect_refusal = refuse

        def post():
            m.prefix.pop(p, None)

        tr.extra["post"] = post
        return lambda: self.t.remove_prefix_from_webentity(*args)

    def _op_move(self, op, tr):
        _, p, idx, mode = op
        m = self.m
        target = self._nth_id(idx)
        args, refuse = self._rm_args(p, mode)
        m.named.add(p)
        tr.expect_refusal = refuse

        def post():
            m.prefix[p] = target

        tr.extra["post"] = post
        src = args[1] if len(args) > 1 else False
        if mode == "right":  # the explicit alias is the same request: exercised on the mode that names its source
            return lambda: self.t.move_prefix_to_webentity_from_webentity(p, target, src)
        return lambda: self.t.move_prefix_to_webentity(p, target, src)

    # rules ---------------------------------------------------------------
    def _op_rule(self, op, tr):
        _, anchor, kind = op
        m = self.m
        m.named.add(anchor)
        m.rules[anchor] = kind
        tr.pred_new_pages = 0
        if self.predict_rules:
            tr.pred_rule_outcomes = m.rule_outcomes(anchor)
        return lambda: self.t.add_webentity_creation_rule(anchor, L.RULES[kind])

    def _op_unrule(self, op, tr):
        _, anchor = op
        m = self.m
        if anchor not in m.rules:
            raise Disabled()

        def post():
            del m.rules[anchor]

        tr.extra["post"] = post
        return lambda: self.t.remove_webentity_creation_rule(anchor)

    # read letters ---------------------------------------------------------
    def _op_obs(self, op, tr):
        """'Observe': the check's own queries are issued here, in the middle of the history,
        on the same object (their answers are discarded). Kept apart in the state key like a
        reopen: it leaves the bytes alone but may change what the object holds in RAM."""
        if self.observer is None:
            raise Disabled()

        def call():
            self.observer(self)
            return True

        return call

    def _op_resolve(self, op, tr):
        """A single resolution query in the middle of the history; the state oracle of C04
        re-issues the same query first afterwards (single-entry memo pattern)."""
        _, lru = op

        def call():
            self.last_obs = lru
            try:
                self.t.retrieve_webentity(lru)
            except self.TraphException:
                pass
            try:
                self.t.retrieve_prefix(lru)
            except self.TraphException:
                pass
            try:
                self.t.get_potential_prefix(lru)
            except self.TraphException:
                pass
            return True

        return call

    # lifecycle -------------------------------------------------------------
    def _op_reopen(self, op, tr):
        if self.folder is None:
            raise Disabled()

        def call():
            self.t.close()
            self.t = self._open(self.m.default, self.m.rules)
            return True

        return call

    def _op_reopen_forget(self, op, tr):
        """Close, then reopen WITHOUT re-supplying the anchored rules (an API misuse that is
        nevertheless reachable): the trie keeps rule flags the object has no pattern for. The
        reference ladder no longer applies afterwards; only C14 (bytes around queries) uses it."""
        if self.folder is None:
            raise Disabled()

        def call():
            self.t.close()
            self.t = self._open(self.m.default, {})
            return True

        return call

    def _op_clear(self, op, tr):
        _, default, rules = op
        rules = dict(rules)

        def call():
            self.t.clear(L.RULES[default], {a: L.RULES[k] for a, k in rules.items()})
            return True

        def post():
            self.m = Model(default, rules)

        tr.extra["post"] = post
        return call


def build(cfg, hist, folder=None, predict_rules=False, on_trans=None, before_last=None):
    """Fresh world, all ops of hist replayed. Returns (world, last Trans or None).
    Returns (None, None) if some op is disabled in its state.
    `before_last(world)` is called just before the last op is applied (used to run the
    check's own queries on the pre-state, so that anything a query caches in RAM is warm when
    the last write happens: 'query; write; query' on one object)."""
    w = World(cfg, folder=folder, predict_rules=predict_rules)
    w.observer = before_last
    tr = None
    try:
        for i, op in enumerate(hist):
            if before_last is not None and i == len(hist) - 1:
                before_last(w)
            tr = w.apply(op)
            if on_trans:
                on_trans(w, tr)
    except Disabled:
        w.close()
        return None, None
    return w, tr
