"""Evidence and replay artefacts; known-findings file."""
import hashlib
import json
import os
import shutil
import subprocess
import sys

from . import env

# VERIF_OUT redirects evidence and replays (used only by the mutant driver, so that runs
# against a mutated copy never overwrite the evidence of the real tree)
_OUT = os.environ.get("VERIF_OUT") or env.VERIF
EVID_DIR = os.path.join(_OUT, "evidence")
REPLAY_DIR = os.path.join(_OUT, "replays")
SCHEMA = os.path.join(env.VERIF, "schemas", "EVIDENCE.schema.json")
KNOWN = os.path.join(env.VERIF, "known-findings.txt")


def write_evidence(pid, tier, seed, level, coverage, assumptions, wall, violations):
    os.makedirs(EVID_DIR, exist_ok=True)
    doc = {
        "property_id": pid,
        "tier": tier,
        "seed": int(seed),
        "level": level,
        "coverage": coverage,
        "assumptions": assumptions,
        "wall_s": round(float(wall), 3),
        "violations": int(violations),
    }
    path = os.path.join(EVID_DIR, pid + ".json")
    tmp = path + ".tmp"
    with open(tmp, "w") as f:
        json.dump(doc, f, indent=1, sort_keys=True, default=str)
        f.write("\n")
    os.replace(tmp, path)
    ok, why = validate(path)
    if not ok:
        raise RuntimeError("evidence file %s does not validate: %s" % (path, why))
    return path


def validate(path):
    """Validate against the evidence schema with jsonschema from the tooling venv (the
    interpreter that runs the checks, /venv, has no jsonschema)."""
    exe = shutil.which("python3-vt") or "/opt/veriftools/pyvenv/bin/python"
    if not os.path.exists(exe):
        return True, "no validator available"
    code = (
        "import json,sys,jsonschema;"
        "s=json.load(open(sys.argv[1]));d=json.load(open(sys.argv[2]));"
        "jsonschema.Draft202012Validator(s).validate(d)"
    )
    p = subprocess.run([exe, "-c", code, SCHEMA, path], capture_output=True, text=True)
    if p.returncode != 0:
        return False, p.stderr[-800:]
    return True, ""


def write_replay(pid, doc):
    os.makedirs(REPLAY_DIR, exist_ok=True)
    blob = json.dumps(doc, sort_keys=True, default=str)
    dg = hashlib.blake2b(blob.encode(), digest_size=6).hexdigest()
    path = os.path.join(REPLAY_DIR, "%s-%s.json" % (pid, dg))
    with open(path, "w") as f:
        json.dump(doc, f, indent=1, sort_keys=True, default=str)
        f.write("\n")
    return path


def load_known():
    """known-findings.txt -> {property: {signature: text}} (only 'known:' lines suppress)."""
    out = {}
    if not os.path.exists(KNOWN):
        return out
    for line in open(KNOWN):
        line = line.strip()
        if not line.startswith("known:"):
            continue
        fields = line[len("known:") :].split()
        prop = sig = None
        rest = []
        for f in fields:
            if f.startswith("property=") and prop is None:
                prop = f.split("=", 1)[1]
            elif f.startswith("sig=") and sig is None:
                sig = f.split("=", 1)[1]
            else:
                rest.append(f)
        if prop and sig:
            out.setdefault(prop, {})[sig] = " ".join(rest)
    return out
