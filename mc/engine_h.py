"""Engine H: explicit-state breadth-first search over API histories of the real Traph.

States are de-duplicated by (trie bytes, link-store bytes, canonical model state); a state is
reconstructed by replaying its history on a fresh object.  Every transition is a transition
of the implementation, executed in lock-step with the reference model."""
import hashlib
import multiprocessing
import os
import random
import time
import traceback
import collections

from . import env
from . import codec
from .world import World, Cfg, Disabled, build


class Ctx(object):
    """Collects what the oracles of one transition/state report."""

    def __init__(self):
        self.violations = []  # (oracle tag, message, known-signature or None)
        self.counts = collections.Counter()
        self._obs = hashlib.blake2b(digest_size=8)

    def fail(self, oracle, msg, known=None):
        self.violations.append((oracle, msg[:600], known))

    def count(self, name, n=1):
        self.counts[name] += n

    def obs(self, x):
        self._obs.update(repr(x).encode("latin-1", "replace"))

    def obs_digest(self):
        return self._obs.digest()


class Space(object):
    """One search space: a configuration, its roots, an alphabet and a depth."""

    def __init__(self, cfg, alphabet, depth, roots=((),), name=None, check_all_transitions=True, dedup=True, slow=1):
        self.check_all_transitions = check_all_transitions
        #: dedup=False: every history is its own state (plain enumeration of all sequences);
        #: used for small alphabets with observe / clear / reopen letters
        self.dedup = dedup
        self.slow = slow  # factor applied to the watchdog time-outs (size letters)
        self.cfg = cfg
        self.alphabet = list(alphabet)
        self.depth = depth
        self.roots = [tuple(r) for r in roots]
        self.name = name or cfg.name


class HCheck(object):
    """Base class of the property checks decided by engine H."""

    pid = None
    predict_rules = False
    #: op kinds whose unexpected failure is a violation of *this* property
    owned = ()

    def spaces(self, tier):
        raise NotImplementedError

    def check_trans(self, w, tr, ctx):
        pass

    def check_state(self, w, ctx):
        pass

    # hooks for engines that need a differently built world (twins)
    #: run this check's state oracles (results discarded) on the state before the last
    #: request, on the same object: a stale in-RAM cache filled by a query then shows up
    warm_before_last = True

    def warm(self, w):
        if not self.warm_before_last or w.broken:
            return
        try:
            self.check_state(w, Ctx())
        except Exception:
            pass

    def make_world(self, cfg, hist):
        """Build the world for hist; returns (world, last Trans) or (None, None) if disabled."""
        return build(cfg, hist, predict_rules=self.predict_rules, before_last=self.warm)

    def state_key(self, w):
        return w.key()

    def failure_policy(self, w, tr, ctx):
        """Unexpected failure / missing refusal of the last op."""
        kind = tr.op[0]
        if tr.unexpected_failure and kind in self.owned:
            ctx.fail("op-failed:" + kind, "request %s failed with %s" % (codec.show(tr.op), tr.exc))
        elif tr.missing_refusal and kind in self.owned:
            ctx.fail("op-not-refused:" + kind, "request %s should have been refused with the library's own error" % (codec.show(tr.op),))


def _digest(key):
    h = hashlib.blake2b(digest_size=16)
    for part in key:
        h.update(len(part).to_bytes(8, "little"))
        h.update(part)
    return h.digest()


# ------------------------------------------------------------------------------- worker side
_G = {}


def _evaluate(check, space, hist, local_seen, seen, want_state=True):
    """Execute hist (last op = the transition under check). Returns a result tuple."""
    ctx = Ctx()
    try:
        w, tr = check.make_world(space.cfg, hist)
    except Exception:
        ctx.fail("harness-error", traceback.format_exc()[-900:])
        return ("error", None, ctx, None)
    if w is None:
        return ("disabled", None, ctx, None)
    try:
        status = "ok"
        if tr is not None:
            check.failure_policy(w, tr, ctx)
            if w.broken:
                status = "broken"
            else:
                check.check_trans(w, tr, ctx)
        if status == "broken":
            return (status, None, ctx, None)
        key = check.state_key(w)
        if not space.dedup:
            key = tuple(key) + (repr(hist).encode("latin-1", "replace"),)
        dg = _digest(key)
        new = dg not in seen and dg not in local_seen
        # The state oracles run on EVERY transition, not only on keys seen for the first
        # time: the key cannot see what the object holds in RAM (a memo, a cached tally), so two
        # histories with the same bytes are merged for *extension* only, never for checking.
        if want_state and (new or space.check_all_transitions):
            local_seen.add(dg)
            check.check_state(w, ctx)
        return (status, dg, ctx, ctx.obs_digest() if new else None)
    except Exception as e:
        # an exception raised INSIDE the tree under check while an oracle was querying it is the
        # implementation failing (a verdict); one raised in harness code is a broken check
        tb = traceback.extract_tb(e.__traceback__)
        if tb and os.path.realpath(tb[-1].filename).startswith(env.REPO + os.sep):
            where = "%s:%d" % (os.path.relpath(tb[-1].filename, env.REPO), tb[-1].lineno)
            ctx.fail("implementation-exception", "a request issued by the oracle failed inside the library (%s): %s: %s" % (where, type(e).__name__, str(e)[:200]))
            return ("broken", None, ctx, None)
        ctx.fail("harness-error", traceback.format_exc()[-900:])
        return ("error", None, ctx, None)
    finally:
        w.close()


def _expand_chunk(args):
    si, hists = args
    check = _G["check"]
    space = _G["spaces"][si]
    seen = _G["seen"]
    local_seen = _G.setdefault("local_seen", set())
    out = []
    for hist in hists:
        for oi, op in enumerate(space.alphabet):
            status, dg, ctx, obs = _evaluate(check, space, hist + (op,), local_seen, seen)
            out.append((hist, oi, status, dg, ctx.violations, dict(ctx.counts), obs))
    return out


# ------------------------------------------------------------------------------- master side
class HResult(object):
    def __init__(self):
        self.states = 0
        self.transitions = 0
        self.executions = 0
        self.disabled = 0
        self.broken = 0
        self.changed = 0
        self.violations = []  # dicts
        self.known = collections.OrderedDict()  # signature -> (message, example)
        self.counts = collections.Counter()
        self.op_fired = collections.Counter()
        self.obs = set()
        self.depth_completed = {}
        self.capped = False
        self.samples = []
        self.per_space = []


def run(check, tier, seed, workers=None, time_cap=None, stop_on_violation=True, log=print):
    env.load()
    env.scratch_root()
    workers = workers or min(16, os.cpu_count() or 1)
    rng = random.Random(seed)
    spaces = check.spaces(tier)
    res = HResult()
    t0 = time.time()
    _G["check"] = check
    _G["spaces"] = spaces
    sample_pool = []
    for si, space in enumerate(spaces):
        # states are de-duplicated per space: another alphabet means other futures to explore
        seen = set()
        _G["seen"] = seen
        frontier = []
        local = set()
        sp_states0, sp_trans0 = res.states, res.transitions
        for root in space.roots:
            status, dg, ctx, obs = _evaluate(check, space, tuple(root), local, seen)
            res.executions += 1
            res.counts.update(ctx.counts)
            if status != "ok":
                raise RuntimeError("root %s of space %s is not buildable: %s %s" % (codec.show(root), space.name, status, ctx.violations))
            _absorb(res, space, tuple(root), None, ctx, si)
            if dg not in seen:
                seen.add(dg)
                res.states += 1
                if obs:
                    res.obs.add(obs)
                frontier.append(tuple(root))
        if res.violations and stop_on_violation:
            break
        for depth in range(1, space.depth + 1):
            if not frontier:
                break
            nxt = []
            chunks = _chunks(frontier, workers, rng)
            stopped = False
            with multiprocessing.get_context("fork").Pool(workers) as pool:
                for out in _imap_guarded(pool, check, si, space, chunks, res, log):
                    for hist, oi, status, dg, viols, counts, obs in out:
                        op = space.alphabet[oi]
                        if status == "disabled":
                            res.disabled += 1
                            continue
                        res.transitions += 1
                        res.executions += 1
                        res.op_fired[(si, oi)] += 1
                        res.counts.update(counts)
                        if viols:
                            c2 = Ctx()
                            c2.violations = viols
                            _absorb(res, space, hist + (op,), op, c2, si)
                        if status != "ok":
                            res.broken += 1
                            continue
                        if dg not in seen:
                            seen.add(dg)
                            res.states += 1
                            res.changed += 1
                            if obs:
                                res.obs.add(obs)
                            nxt.append(hist + (op,))
                            if len(sample_pool) < 4000:
                                sample_pool.append((space.name, hist + (op,)))
                    if res.violations and stop_on_violation:
                        stopped = True
                        pool.terminate()
                        break
                    if time_cap and time.time() - t0 > time_cap:
                        res.capped = True
                        stopped = True
                        pool.terminate()
                        break
            if stopped:
                break
            res.depth_completed[space.name] = depth
            frontier = nxt
            log(
                "  [%s] space=%s depth=%d states=%d transitions=%d frontier=%d known=%d t=%.1fs"
                % (check.pid, space.name, depth, res.states, res.transitions, len(frontier), len(res.known), time.time() - t0)
            )
        res.per_space.append(
            {
                "space": space.name,
                "depth_completed": res.depth_completed.get(space.name, 0),
                "depth_bound": space.depth,
                "states": res.states - sp_states0,
                "transitions": res.transitions - sp_trans0,
                "alphabet": len(space.alphabet),
                "roots": len(space.roots),
            }
        )
        if (res.violations and stop_on_violation) or res.capped:
            break
    rng.shuffle(sample_pool)
    res.samples = [{"space": n, "history": [codec.show(o) for o in h]} for n, h in sample_pool[:5]]
    res.wall = time.time() - t0
    # vacuity: every op of every fully explored space fired at least once
    res.never_fired = []
    if not res.violations and not res.capped:
        for si, space in enumerate(spaces):
            for oi, op in enumerate(space.alphabet):
                if not res.op_fired[(si, oi)]:
                    res.never_fired.append((space.name, codec.show(op)))
    return res


# generous on purpose: a slow but finite execution on a loaded machine must never be taken
# for a hang (spaces with very large letters raise them further, see Space.slow)
CHUNK_TIMEOUT = float(os.environ.get("VERIF_CHUNK_TIMEOUT", "1500"))
ONE_TIMEOUT = float(os.environ.get("VERIF_ONE_TIMEOUT", "300"))


def _isolated(check, space, hist):
    """Evaluate one history in a process of its own; returns 'ok' / 'hang' / 'died'."""
    ctx_ = multiprocessing.get_context("fork")

    def target():
        try:
            _evaluate(check, space, hist, set(), set())
        finally:
            os._exit(0)

    p = ctx_.Process(target=target)
    p.start()
    p.join(ONE_TIMEOUT * getattr(space, "slow", 1))
    if p.is_alive():
        p.kill()
        p.join()
        return "hang"
    return "ok" if p.exitcode == 0 else "died"


def _imap_guarded(pool, check, si, space, chunks, res, log):
    """pool.imap with a watchdog: a worker that hangs or dies (an endless loop, a blown
    stack or memory inside the tree under check) would block the pool for ever. After
    CHUNK_TIMEOUT seconds without a result the pool is abandoned, every history of the
    pending chunk is re-run in a process of its own, and the one that hangs or kills its
    process is reported as a violation."""
    it = pool.imap(_expand_chunk, [(si, c) for c in chunks])
    idx = 0
    while True:
        try:
            out = it.next(timeout=CHUNK_TIMEOUT * getattr(space, "slow", 1) * (4 if os.environ.get("VERIF_TIER_RUNNING") == "thorough" else 1))
        except StopIteration:
            return
        except multiprocessing.TimeoutError:
            pool.terminate()
            log("  [%s] no result for %.0fs: looking for the history that hangs or kills its process" % (check.pid, CHUNK_TIMEOUT))
            found = False
            for hist in chunks[idx] if idx < len(chunks) else []:
                for op in space.alphabet:
                    verdict = _isolated(check, space, hist + (op,))
                    if verdict != "ok":
                        res.violations.append({"oracle": "request-hangs" if verdict == "hang" else "request-kills-process", "message": "executing and querying this history does not come back within %.0fs (%s)" % (ONE_TIMEOUT, verdict), "space_index": si, "space": space.name, "history": hist + (op,)})
                        found = True
                        break
                if found:
                    break
            if not found:
                res.violations.append({"oracle": "harness-error", "message": "a worker stopped answering but no single history of the pending chunk hangs on its own", "space_index": si, "space": space.name, "history": ()})
            return
        idx += 1
        yield out


def _chunks(frontier, workers, rng):
    n = len(frontier)
    size = max(1, min(64, n // (workers * 4) or 1))
    return [frontier[i : i + size] for i in range(0, n, size)]


def _absorb(res, space, hist, op, ctx, si):
    for oracle, msg, known in ctx.violations:
        if known:
            if known not in res.known:
                res.known[known] = (msg, {"oracle": oracle, "space_index": si, "space": space.name, "history": hist})
            continue
        res.violations.append({"oracle": oracle, "message": msg, "space_index": si, "space": space.name, "history": hist})


def replay(check, space, hist, isolated_for=None):
    """Re-execute one history without the explorer; returns the list of violations (tags)."""
    if isolated_for in ("request-hangs", "request-kills-process"):
        verdict = _isolated(check, space, tuple(hist))
        return [] if verdict == "ok" else [("request-hangs" if verdict == "hang" else "request-kills-process", "does not come back (%s)" % verdict, None)]
    ctx = Ctx()
    w, tr = check.make_world(space.cfg, tuple(hist))
    if w is None:
        return None
    try:
        if tr is not None:
            check.failure_policy(w, tr, ctx)
            if not w.broken:
                check.check_trans(w, tr, ctx)
        if not w.broken:
            check.check_state(w, ctx)
    except Exception as e:
        tb = traceback.extract_tb(e.__traceback__)
        if tb and os.path.realpath(tb[-1].filename).startswith(env.REPO + os.sep):
            where = "%s:%d" % (os.path.relpath(tb[-1].filename, env.REPO), tb[-1].lineno)
            ctx.fail("implementation-exception", "a request issued by the oracle failed inside the library (%s): %s: %s" % (where, type(e).__name__, str(e)[:200]))
        else:
            raise
    finally:
        w.close()
    return ctx.violations
