"""Shared material of the relational checks (C05, C07, C08, C13, C20; DESIGN 4.2):
a rich state space and the ground truth taken from the implementation's *primitive*
observations (pages_iter, get_page_links, retrieve_webentity, webentity_prefix_iter), which
are themselves tied to the reference model by C01, C03 and C04."""
import collections

from . import alpha as al
from . import lru as L
from .alpha import A, Ax, Axy, Ab, Az, Aw, Awx, S, Sx, Bb, C1
from .engine_h import Space
from .world import Cfg


def rich_ops():
    return [
        al.page(A),
        al.page(Ax, True),
        al.page(Axy),
        al.page(Ab),
        al.page(Sx),
        al.page(Awx, True),
        al.page(Bb, True),
        al.links((Ax, Ab), (Ax, Ab), (Ab, Ax)),
        al.links((Axy, Axy), (Ax, Bb)),
        al.links((A, Axy), (Sx, A), (Awx, Ab)),
        al.crawl((Ax, (Axy, Sx, Bb)), (Bb, (Ax,))),
        al.create(Ax),
        al.create(Axy, Bb),
        al.create(C1),
        al.addprefix(Ab, 0),
        al.rmprefix(A),
        al.delete(0),
        al.move(Ax, 0),
        al.rule(A, "path1"),
        al.create(al.SH),  # one-stem prefix enclosing everything under http
        al.page(al.LONGP, True),  # multi-block stem read right before short ones
        al.links((al.LONGP, Ax), (Ab, al.LONGP)),
        al.pages((al.LONGQ, al.LONGQ + b"p:k|"), True),  # a stem of exactly 3 blocks, then a later node
    ]


def edit_ops():
    """Every route that changes the attached-prefix map, with queries (OBS) in between, on
    states that already hold pages and links."""
    return al.prefix_edit_ops() + [al.OBS, al.page(Axy + b"p:k|", True), al.links((Ax, Az), (Az, Axy)), al.rule(A, "path1"), al.unrule(A)]


def lifecycle_ops():
    """Two different corpora (so that after a clear other LRUs land on the same blocks),
    queries in between, clear and reopen."""
    return [
        al.links((Ax, Ab), (Ab, Ax), (Ax, Ax)),
        al.crawl((Bb, (Az, Axy)), (Az, (Bb,))),
        al.page(Awx, True),
        al.create(Ax),
        al.rmprefix(Ax),
        al.OBS,
        al.clear("subdomain", {}),
        al.REOPEN,
    ]


def rich_spaces(tier, depth_quick=3, depth_thorough=4, extra_ops=(), roots=None):
    thorough = tier == "thorough"
    ops = rich_ops() + list(extra_ops)
    d = depth_thorough if thorough else depth_quick
    return [
        Space(Cfg("domain"), ops, d, roots=roots or [al.R0, al.R2, al.R4], name="rich/domain"),
        Space(Cfg("never"), ops, d, roots=[al.R0], name="rich/never"),
        Space(Cfg("domain"), edit_ops(), 4 if thorough else 3, roots=[al.R2, al.R4], name="edits/domain"),
        # webentity ids beyond 256 (260 creations first): the same linked state, other id values
        Space(Cfg("domain"), [al.create(Ab), al.rmprefix(Ax), al.links((Sx, Ab), (Awx, Sx)), al.page(Awx), al.OBS], 2 if thorough else 1, roots=[(("create_many", Bb, 260),) + al.R2], name="large-ids/domain"),
        Space(Cfg("domain"), lifecycle_ops(), 5 if thorough else 4, roots=[al.R0], name="lifecycle/domain", dedup=False),
    ]


def latin1_space(tier):
    """A latin-1 index whose LRUs hold a non-ASCII letter, driven with str arguments."""
    E1 = b"s:http|h:fr|h:caf\xe9|"
    ops = [al.as_str(al.page(E1 + b"p:th\xe9|", True)), al.as_str(al.page(E1)), al.as_str(al.create(E1 + b"p:th\xe9|")), al.as_str(al.links((E1, E1 + b"p:th\xe9|"), (E1 + b"p:th\xe9|", E1 + b"p:x|"))), al.delete(0), al.page(Bb)]
    return Space(Cfg("domain", encoding="latin-1", query_str=True), ops, 4 if tier == "thorough" else 3, name="latin-1+str/domain")


class Ground(object):
    """Primitive observations of one index state."""

    def __init__(self, w):
        t = w.t
        TE = w.TraphException
        self.pages = [(lru, bool(node.is_crawled())) for node, lru in t.pages_iter()]
        self.crawled = dict(self.pages)
        self.res = {}
        for p, _ in self.pages:
            try:
                self.res[p] = t.retrieve_webentity(p)
            except TE:
                self.res[p] = None
        self.prefixes = collections.defaultdict(list)  # weid -> prefixes
        self.owner = {}
        for node, lru in t.webentity_prefix_iter():
            self.prefixes[node.webentity()].append(lru)
            self.owner[lru] = node.webentity()
        for v in self.prefixes.values():
            v.sort()
        # page link multigraph from the outbound + internal side of every page
        self.edges = collections.Counter()
        for p, _ in self.pages:
            for s, tg, wt in t.get_page_links(p, include_inbound=False, include_internal=True, include_outbound=True):
                self.edges[(s, tg)] += wt
        self.members = collections.defaultdict(list)
        for p, _ in self.pages:
            if self.res[p] is not None:
                self.members[self.res[p]].append(p)

    def weids(self):
        return sorted(self.prefixes)
