"""Command-line runner:  python -m mc.run <ID> <quick|thorough> [--replay path]

exit 0  property held on everything explored (KNOWN-FINDING lines possible)
exit 1  VIOLATION property=<id> replay=<path>
exit 2  harness error (non-reproducible replay, vacuous run) - a broken check, not a verdict
"""
import importlib
import json
import os
import sys
import time
import traceback

os.environ.setdefault("PYTHONHASHSEED", "0")

from . import env, evidence, codec  # noqa: E402


class Outcome(object):
    def __init__(self):
        self.coverage = {}
        self.violations = []  # dicts: oracle, message, replay (doc)
        self.known = {}  # sig -> (message, example)
        self.harness_errors = []
        self.wall = 0.0


def load_prop(pid):
    return importlib.import_module("mc.props.%s" % pid.lower())


def main(argv=None):
    argv = list(sys.argv[1:] if argv is None else argv)
    if len(argv) < 2:
        print(__doc__)
        return 2
    pid = argv[0].upper()
    mod = load_prop(pid)
    if argv[1] == "--replay":
        return do_replay(pid, mod, argv[2])
    tier = os.environ.get("VERIF_TIER") if argv[1] == "env" else argv[1]
    if tier not in ("quick", "thorough"):
        print("tier must be quick or thorough")
        return 2
    if len(argv) >= 4 and argv[2] == "--replay":
        return do_replay(pid, mod, argv[3])
    seed = int(os.environ.get("VERIF_SEED", "0") or 0)
    os.environ["VERIF_TIER_RUNNING"] = tier
    t0 = time.time()
    print("[%s] tier=%s seed=%d tree=%s" % (pid, tier, seed, env.REPO), flush=True)
    try:
        out = mod.run(tier, seed, log=lambda s: print(s, flush=True))
    except Exception:
        traceback.print_exc()
        print("HARNESS-ERROR property=%s (exception in the harness)" % pid)
        return 2
    finally:
        env.cleanup_scratch()
    wall = time.time() - t0
    listed = evidence.load_known().get(pid, {})
    violations = list(out.violations)
    known_lines = []
    for sig, (msg, example) in out.known.items():
        if sig in listed:
            known_lines.append("KNOWN-FINDING: property=%s sig=%s %s" % (pid, sig, listed[sig] or msg))
        else:
            ex = example if isinstance(example, dict) and "engine" in example else None
            violations.append({"oracle": (ex or {}).get("oracle", sig), "message": msg + "  (finding sig=%s is not listed in known-findings.txt)" % sig, "replay": ex})
    rc = 0
    shown = []
    if violations:
        # one replay per distinct oracle tag, first (= shortest) occurrence
        seen_tags = set()
        for v in violations:
            if v["oracle"] in seen_tags:
                continue
            seen_tags.add(v["oracle"])
            doc = v.get("replay")
            path = None
            if doc is not None:
                doc = dict(doc)
                doc.update(property=pid, oracle=v["oracle"], message=v["message"])
                # determinism: the same replay must fail twice from scratch
                ok = True
                for _ in range(2):
                    try:
                        env.reset_process_state()
                        again = mod.replay(doc)
                    except Exception:
                        traceback.print_exc()
                        again = None
                    if not again or v["oracle"] not in [x[0] for x in again]:
                        ok = False
                        break
                if not ok:
                    print("HARNESS-ERROR property=%s oracle=%s did not reproduce from its replay" % (pid, v["oracle"]))
                    out.harness_errors.append("non-reproducible: %s" % v["oracle"])
                    continue
                path = evidence.write_replay(pid, doc)
            shown.append((v, path))
            if len(shown) >= 5:
                break
        if shown:
            rc = 1
    cov = dict(out.coverage)
    cov.setdefault("known_findings_met", sorted(out.known))
    try:
        evidence.write_evidence(pid, tier, seed, mod.LEVEL, cov, mod.ASSUMPTIONS, wall, len(shown))
    except Exception:
        traceback.print_exc()
        print("HARNESS-ERROR property=%s evidence not written" % pid)
        return 2
    for line in known_lines:
        print(line)
    for v, path in shown:
        print("  oracle=%s: %s" % (v["oracle"], v["message"]))
        print("VIOLATION property=%s replay=%s" % (pid, path))
    if out.harness_errors:
        for e in out.harness_errors:
            print("HARNESS-ERROR property=%s %s" % (pid, e))
        if rc == 0:
            rc = 2
    print("[%s] %s in %.1fs: %s" % (pid, {0: "HELD", 1: "VIOLATED", 2: "HARNESS ERROR"}[rc], wall, summary(cov)), flush=True)
    return rc


def summary(cov):
    keys = ("states", "transitions", "traces_validated_against_impl", "evaluations", "distinct_nontrivial", "exhaustive")
    return " ".join("%s=%s" % (k, cov[k]) for k in keys if k in cov)


def do_replay(pid, mod, path):
    doc = json.load(open(path))
    try:
        env.load()
        env.reset_process_state()
        res = mod.replay(doc)
    finally:
        env.cleanup_scratch()
    if res is None:
        print("replay not executable on this tree (an operation of the history is not enabled)")
        return 2
    tags = [x for x in res if not x[2]]
    for oracle, msg, known in res:
        print("  %soracle=%s: %s" % ("(known:%s) " % known if known else "", oracle, msg))
    if tags:
        print("VIOLATION property=%s replay=%s" % (pid, path))
        return 1
    print("replay %s: no violation on this tree" % path)
    return 0


if __name__ == "__main__":
    sys.exit(main())
