"""Engine P: exhaustive enumeration of pagination protocols with interleaved writes.

A chain = successive paginate_webentity_pages calls, each fed the token of the previous
answer.  At every token boundary the engine branches over "no write" and every insertion
of a write menu (at most `max_writes` insertions per chain, each insertion used once);
every branch is replayed from scratch on a fresh index built from the base history."""
import collections
import multiprocessing
import os
import time

from . import codec, env, guard
from . import lru as L
from .world import build, Cfg


class PTask(object):
    def __init__(self, cfg, base, base_name, order, k, crawled_only, menu, max_writes):
        self.cfg = cfg
        self.base = tuple(base)
        self.base_name = base_name
        self.order = list(order)
        self.k = k
        self.crawled_only = crawled_only
        self.menu = list(menu)  # ops (page insertions)
        self.max_writes = max_writes

    def describe(self):
        return "base=%s cfg=%s prefixes=[%s] k=%d crawled_only=%s" % (self.base_name, self.cfg.name, ", ".join(L.show(p) for p in self.order), self.k, self.crawled_only)

    def to_json(self):
        return {
            "cfg": self.cfg.to_json(),
            "base": codec.enc(self.base),
            "base_name": self.base_name,
            "order": codec.enc(self.order),
            "k": self.k,
            "crawled_only": self.crawled_only,
            "menu": codec.enc(self.menu),
            "max_writes": self.max_writes,
        }

    @staticmethod
    def from_json(d):
        return PTask(Cfg.from_json(d["cfg"]), codec.dec(d["base"]), d.get("base_name", "?"), codec.dec(d["order"]), d["k"], d["crawled_only"], codec.dec(d["menu"]), d["max_writes"])


def members(w, wid, order, crawled_only):
    t = w.t
    try:
        if crawled_only:
            return frozenset(d["lru"] for d in t.get_webentity_crawled_pages(wid, order))
        return frozenset(d["lru"] for d in t.get_webentity_pages(wid, order))
    except Exception:
        return frozenset()


def run_chain(task, seq, branch=True):
    """Execute one chain. seq[i] = write choice (index in menu or None) at boundary i.
    Returns (violations, nboundaries, summary). Boundaries beyond len(seq) take no write."""
    w, _ = build(task.cfg, task.base)
    if w is None:
        raise RuntimeError("base history not buildable")
    viol = []
    try:
        t = w.t
        order = task.order
        wid = w.m.prefix.get(order[0])
        if wid is None:
            raise RuntimeError("first prefix of the order is not attached in the base state")
        k = task.k
        moments = [members(w, wid, order, task.crawled_only)]
        tok = None
        acc = []
        step = 0
        calls = 0
        while True:
            try:
                r = t.paginate_webentity_pages(wid, order, page_count=k, pagination_token=tok, crawled_only=task.crawled_only)
            except Exception as e:
                viol.append(("token-not-resumable" if tok else "query-failed", "call %d with token %r failed: %s: %s" % (calls + 1, tok, type(e).__name__, e)))
                break
            calls += 1
            got = [d["lru"] for d in r["pages"]]
            acc += got
            if r.get("count") != len(got):
                viol.append(("count", "answer reports %r pages and holds %d" % (r.get("count"), len(got))))
            if r.get("count_crawled") != sum(1 for d in r["pages"] if d["crawled"]):
                viol.append(("count-crawled", "answer reports %r crawled pages and holds %d" % (r.get("count_crawled"), sum(1 for d in r["pages"] if d["crawled"]))))
            if task.crawled_only and not all(d["crawled"] for d in r["pages"]):
                viol.append(("crawled-only", "crawled-only answer holds an uncrawled page"))
            if r["done"]:
                if r.get("token"):
                    viol.append(("final-has-token", "final answer carries a token"))
                break
            if len(got) != k:
                viol.append(("non-final-size", "non-final answer %d holds %d pages, %d requested" % (calls, len(got), k)))
            tok = r.get("token")
            if not tok:
                viol.append(("non-final-no-token", "non-final answer without token"))
                break
            c = seq[step] if step < len(seq) else None
            if c is not None:
                tr = w.apply(task.menu[c])
                if tr.exc is not None:
                    viol.append(("write-failed", "interleaved insertion %s failed: %s" % (codec.show(task.menu[c]), tr.exc)))
                    break
                moments.append(members(w, wid, order, task.crawled_only))
            step += 1
            if calls > 60:
                viol.append(("chain-does-not-end", "pagination chain exceeds 60 answers"))
                break
        if len(set(acc)) != len(acc):
            dup = [x for x, n in collections.Counter(acc).items() if n > 1]
            viol.append(("page-repeated", "page(s) %s returned twice" % [L.show(x) for x in dup]))
        thr = frozenset.intersection(*moments)
        ever = frozenset.union(*moments)
        if not viol or all(v[0] not in ("token-not-resumable", "query-failed", "write-failed", "chain-does-not-end") for v in viol):
            miss = thr - set(acc)
            if miss:
                viol.append(("page-skipped", "page(s) %s belonged to the webentity at every call of the chain but were never returned" % [L.show(x) for x in sorted(miss)]))
            ghost = set(acc) - ever
            if ghost:
                viol.append(("page-invented", "page(s) %s returned although they belonged to the webentity at no call of the chain" % [L.show(x) for x in sorted(ghost)]))
        if not any(c is not None for c in seq):
            # without writes: prefix by prefix in the given order, ascending within a prefix
            def pos(x):
                best = None
                for i, q in enumerate(order):
                    if L.is_stem_prefix(q, x) and (best is None or len(q) > len(order[best])):
                        best = i
                return best

            keyed = [(pos(x), x) for x in acc]
            if keyed != sorted(keyed):
                viol.append(("order", "pages are not returned prefix by prefix in the given order, ascending within a prefix: %s" % [L.show(x) for x in acc]))
            if set(acc) != moments[0]:
                viol.append(("page-set", "without interleaved writes the chain returned %s, the webentity holds %s" % ([L.show(x) for x in acc], [L.show(x) for x in sorted(moments[0])])))
        return viol, step, (calls, tuple(acc))
    finally:
        w.close()


def explore_task(task):
    """All chains of one task: DFS over write choices at boundaries."""
    stats = collections.Counter()
    viols = []
    outcomes = set()

    def rec(seq):
        v, nb, summ = run_chain(task, seq)
        stats["chains"] += 1
        nw = sum(1 for c in seq if c is not None)
        stats["chains_with_%d_writes" % nw] += 1
        outcomes.add(summ)
        for tag, msg in v:
            viols.append((tag, msg, list(seq)))
        if v:
            return
        if nw >= task.max_writes:
            return
        used = set(c for c in seq if c is not None)
        for b in range(len(seq), nb):
            for c in range(len(task.menu)):
                if c in used:
                    continue
                rec(list(seq) + [None] * (b - len(seq)) + [c])

    rec([])
    stats["distinct_outcomes"] = len(outcomes)
    return stats, viols[:20]


def _worker(task):
    try:
        return task, explore_task(task), None
    except Exception:
        import traceback

        return task, None, traceback.format_exc()[-800:]


def run(tasks, workers=None, log=print, stop_on_violation=True):
    env.load()
    env.scratch_root()
    workers = workers or min(16, os.cpu_count() or 1)
    total = collections.Counter()
    violations = []
    errors = []
    t0 = time.time()
    with multiprocessing.get_context("fork").Pool(workers) as pool:
        results = guard.imap(pool, _worker, tasks)
        while True:
            try:
                task, res, err = next(results)
            except StopIteration:
                break
            except guard.Stuck as st:
                violations.append({"oracle": "request-hangs", "message": "the pagination chains of this task do not come back: %s" % st.task.describe(), "task": st.task, "seq": []})
                break
            if err:
                errors.append("%s: %s" % (task.describe(), err))
                continue
            stats, viols = res
            total.update({k: v for k, v in stats.items() if k != "distinct_outcomes"})
            total["distinct_outcomes"] += stats["distinct_outcomes"]
            total["tasks"] += 1
            for tag, msg, seq in viols:
                violations.append({"oracle": tag, "message": "%s; %s; writes at boundaries: %s" % (msg, task.describe(), [None if c is None else codec.show(task.menu[c]) for c in seq]), "task": task, "seq": seq})
            if violations and stop_on_violation:
                pool.terminate()
                break
    log("  [P] tasks=%d chains=%d (0/1/2/3 writes: %d/%d/%d/%d) violations=%d t=%.1fs" % (total["tasks"], total["chains"], total["chains_with_0_writes"], total["chains_with_1_writes"], total["chains_with_2_writes"], total["chains_with_3_writes"], len(violations), time.time() - t0))
    return total, violations, errors
