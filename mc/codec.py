"""JSON codec for ops/histories: bytes <-> {"b": latin-1 text}, tuples <-> lists."""
from . import lru as L


def enc(x):
    if isinstance(x, bytes):
        return {"b": x.decode("latin-1")}
    if isinstance(x, (tuple, list)):
        return [enc(y) for y in x]
    if isinstance(x, dict):
        return {"d": [[enc(k), enc(v)] for k, v in x.items()]}
    if isinstance(x, (set, frozenset)):
        return {"s": sorted((enc(y) for y in x), key=repr)}
    return x


def dec(x):
    if isinstance(x, dict):
        if "b" in x:
            return x["b"].encode("latin-1")
        if "d" in x:
            return {dec(k): dec(v) for k, v in x["d"]}
        if "s" in x:
            return frozenset(dec(y) for y in x["s"])
        raise ValueError(x)
    if isinstance(x, list):
        return tuple(dec(y) for y in x)
    return x


def show(x, limit=400):
    """Human-readable rendering for samples and messages (not parsed back); long renderings
    (size letters: hundreds of targets) are cut in the middle."""
    s = _show(x)
    if len(s) > limit:
        s = s[: limit - 60] + " ...<%d chars>... " % len(s) + s[-40:]
    return s


def _show(x):
    if isinstance(x, bytes):
        return L.show(x)
    if isinstance(x, (tuple, list)):
        return "(" + ", ".join(_show(y) for y in x) + ")"
    if isinstance(x, dict):
        return "{" + ", ".join("%s: %s" % (_show(k), _show(v)) for k, v in x.items()) + "}"
    return str(x)
