"""JSON codec for ops/histories: bytes <-> {"b": latin-1 text}, tuples <-> lists."""
from . import lru as L


def enc(x):
    if isinstance(x, bytes):
        return {"b": x.decode("latin-1")}
    if isinstance(x, (tuple, list)):
        return [enc(y) for y in x]
    if isinstance(x, dict):
        return {"d": [[enc(k), enc(v)] for k, v in x.items()]}
    if isinstance(x, (set, frozenset)):
        return {"s": sorted((enc(y) for y in x), key=repr)}
    return x


def dec(x):
    if isinstance(x, dict):
        if "b" in x:
            return x["b"].encode("latin-1")
        if "d" in x:
            return {dec(k): dec(v) for k, v in x["d"]}
        if "s" in x:
            return frozenset(dec(y) for y in x["s"])
        raise ValueError(x)
    if isinstance(x, list):
        return tuple(dec(y) for y in x)
    return x


def show(x):
    """Human-readable rendering for samples and messages (not parsed back)."""
    if isinstance(x, bytes):
        return L.show(x)
    if isinstance(x, (tuple, list)):
        return "(" + ", ".join(show(y) for y in x) + ")"
    if isinstance(x, dict):
        return "{" + ", ".join("%s: %s" % (show(k), show(v)) for k, v in x.items()) + "}"
    return str(x)
