"""Watchdog around multiprocessing pools: a task that hangs or kills its worker (an endless
loop, a blown stack inside the tree under check) must not block a check for ever."""
import multiprocessing
import os

def _default():
    # a slow but finite task on a loaded machine must never be taken for a hang: one hour in the
    # quick tier (tasks take seconds to a few minutes), six hours in the thorough tier
    return 21600.0 if os.environ.get("VERIF_TIER_RUNNING") == "thorough" else 3600.0


TASK_TIMEOUT = float(os.environ.get("VERIF_TASK_TIMEOUT", "0")) or None


class Stuck(Exception):
    def __init__(self, task):
        Exception.__init__(self, "no result within %.0fs" % (TASK_TIMEOUT or _default()))
        self.task = task


def imap(pool, fn, tasks, timeout=None):
    """Ordered imap (chunksize 1). Raises Stuck(task) naming the first task whose result did
    not arrive in time; the pool is terminated first."""
    tasks = list(tasks)
    it = pool.imap(fn, tasks, chunksize=1)
    for i in range(len(tasks)):
        try:
            yield it.next(timeout=timeout or TASK_TIMEOUT or _default())
        except StopIteration:
            return
        except multiprocessing.TimeoutError:
            pool.terminate()
            raise Stuck(tasks[i])
