"""Watchdog around multiprocessing pools: a task that hangs or kills its worker (an endless
loop, a blown stack inside the tree under check) must not block a check for ever."""
import multiprocessing
import os

TASK_TIMEOUT = float(os.environ.get("VERIF_TASK_TIMEOUT", "7200"))


class Stuck(Exception):
    def __init__(self, task):
        Exception.__init__(self, "no result within %.0fs" % TASK_TIMEOUT)
        self.task = task


def imap(pool, fn, tasks, timeout=None):
    """Ordered imap (chunksize 1). Raises Stuck(task) naming the first task whose result did
    not arrive in time; the pool is terminated first."""
    tasks = list(tasks)
    it = pool.imap(fn, tasks, chunksize=1)
    for i in range(len(tasks)):
        try:
            yield it.next(timeout=timeout or TASK_TIMEOUT)
        except StopIteration:
            return
        except multiprocessing.TimeoutError:
            pool.terminate()
            raise Stuck(tasks[i])
