"""Load the tree under check and own its seams.

The tree under check is $VERIF_REPO (default /repo).  It is imported in-process, from
source, with no byte-code written: being pure Python, "rebuild from the working tree" is
exactly that import.  All interposition is done here, from the harness side:

* ``traph.traph.open``  -> logging file objects (engine F), on demand;
* ``TraphIteratorState.should_yield`` -> "count, then always True" (engine S), on demand.
"""
import os
import shutil
import sys
import tempfile
import warnings
import atexit

sys.dont_write_bytecode = True
REPO = os.path.realpath(os.environ.get("VERIF_REPO", "/repo"))
VERIF = os.path.dirname(os.path.dirname(os.path.abspath(__file__)))

_loaded = {}


def load():
    """Import (once) the traph package from REPO and return the namespace used by the harness."""
    if _loaded:
        return _loaded
    for name in list(sys.modules):
        if name == "traph" or name.startswith("traph."):
            del sys.modules[name]
    if REPO in sys.path:
        sys.path.remove(REPO)
    sys.path.insert(0, REPO)
    warnings.simplefilter("ignore")
    import traph
    import traph.traph as tt
    import traph.traph_iterator_state as tis
    import traph.helpers as th
    import traph.storage.file as tsf

    origin = os.path.realpath(os.path.dirname(traph.__file__))
    if origin != os.path.join(REPO, "traph"):
        raise RuntimeError("traph imported from %s, expected %s" % (origin, REPO))
    _loaded.update(
        traph=traph,
        tt=tt,
        tis=tis,
        th=th,
        tsf=tsf,
        Traph=traph.Traph,
        TraphException=tt.TraphException,
    )
    return _loaded


def reset_process_state():
    """Module-level memoisation (functools caches) in the tree under check would leak from one
    execution into the next inside a long-lived worker and make replays irreproducible: every
    execution starts with such caches empty (a bug that needs a warm cache then has to warm it
    within one history, which is what a user's process does too)."""
    for name, mod in list(sys.modules.items()):
        if mod is None or not (name == "traph" or name.startswith("traph.")):
            continue
        for attr in list(vars(mod).values()):
            cc = getattr(attr, "cache_clear", None)
            if callable(cc):
                try:
                    cc()
                except Exception:
                    pass


# ----------------------------------------------------------------------------- scratch
_scratch_root = None
_scratch_owner = None


def scratch_root():
    """Scratch directory on tmpfs, created by the first caller (the master process) and
    removed by it at exit. Forked workers inherit it and use a per-pid sub-folder (pool
    workers leave through os._exit, so only the master can clean up)."""
    global _scratch_root, _scratch_owner
    if _scratch_root is None:
        base = "/dev/shm" if os.path.isdir("/dev/shm") and os.access("/dev/shm", os.W_OK) else None
        _remove_stale(base or tempfile.gettempdir())
        _scratch_root = tempfile.mkdtemp(prefix="traph-verif-%d-" % os.getpid(), dir=base)
        _scratch_owner = os.getpid()
        atexit.register(cleanup_scratch)
    return _scratch_root


def _remove_stale(base):
    """Scratch directories of runs that were killed (their creating process is gone)."""
    try:
        for name in os.listdir(base):
            if not name.startswith("traph-verif-"):
                continue
            try:
                pid = int(name.split("-")[2])
            except (IndexError, ValueError):
                continue
            if not os.path.exists("/proc/%d" % pid):
                shutil.rmtree(os.path.join(base, name), ignore_errors=True)
    except OSError:
        pass


def cleanup_scratch():
    global _scratch_root
    if _scratch_root and _scratch_owner == os.getpid():
        shutil.rmtree(_scratch_root, ignore_errors=True)
        _scratch_root = None


_counter = [0]


def fresh_folder(tag="w"):
    """A folder that does not exist yet (Traph creates it)."""
    _counter[0] += 1
    return os.path.join(scratch_root(), "p%d" % os.getpid(), "%s%d" % (tag, _counter[0]))


def wipe(folder):
    shutil.rmtree(folder, ignore_errors=True)


# ----------------------------------------------------------------------------- seams
def patch_always_yield():
    """Every loop iteration of every *_iter request becomes a yield point (C16)."""
    ns = load()

    def should_yield(self, yield_frequency=1000):
        self.n_iterations += 1
        return True

    ns["tis"].TraphIteratorState.should_yield = should_yield


class LoggingFile(object):
    """Wraps the real file object handed to FileStorage; logs writes in program order."""

    def __init__(self, f, name, log):
        self._f = f
        self._name = name
        self._log = log

    def write(self, data):
        pos = self._f.tell()
        self._log.append((self._name, pos, bytes(data)))
        return self._f.write(data)

    def __getattr__(self, k):
        return getattr(self._f, k)


class OpenLogger(object):
    """Context manager: interpose traph.traph.open, collect (file, offset|'create', bytes)."""

    def __init__(self):
        self.log = []

    def __enter__(self):
        ns = load()
        log = self.log

        def my_open(path, flags, *a, **k):
            f = open(path, flags, *a, **k)
            name = os.path.basename(path)
            if "w" in flags:
                log.append((name, "create", None))
            return LoggingFile(f, name, log)

        self._tt = ns["tt"]
        self._had = "open" in self._tt.__dict__
        self._old = self._tt.__dict__.get("open")
        self._tt.open = my_open
        return self

    def __exit__(self, *exc):
        if self._had:
            self._tt.open = self._old
        else:
            del self._tt.open
        return False
