"""Glue between engine H and the runner: Outcome, evidence coverage, replays."""
from . import codec, engine_h
from .run import Outcome
from .world import Cfg


def run_hcheck(check, tier, seed, log, time_cap=None, extra_cov=None):
    res = engine_h.run(check, tier, seed, time_cap=time_cap, log=log)
    out = Outcome()
    spaces = check.spaces(tier)
    for v in res.violations:
        sp = spaces[v["space_index"]]
        if v["oracle"] == "harness-error":
            # an exception inside the harness or an oracle (e.g. an internal attribute the
            # oracle reads no longer exists) is a broken check, never a verdict
            out.harness_errors.append("exception in the harness on history [%s]: %s" % (" ; ".join(codec.show(o) for o in v["history"]), v["message"][-400:]))
            continue
        out.violations.append(
            {
                "oracle": v["oracle"],
                "message": v["message"] + "   [space %s; history: %s]" % (sp.name, " ; ".join(codec.show(o) for o in v["history"])),
                "replay": {
                    "engine": "H",
                    "tier": tier,
                    "space_index": v["space_index"],
                    "space": sp.name,
                    "cfg": sp.cfg.to_json(),
                    "history": codec.enc(v["history"]),
                    "history_text": [codec.show(o) for o in v["history"]],
                },
            }
        )
    for sig, (msg, ex) in res.known.items():
        sp = spaces[ex["space_index"]]
        out.known[sig] = (
            msg + "   [space %s; history: %s]" % (sp.name, " ; ".join(codec.show(o) for o in ex["history"])),
            {
                "engine": "H",
                "tier": tier,
                "oracle": ex["oracle"],
                "space_index": ex["space_index"],
                "space": sp.name,
                "cfg": sp.cfg.to_json(),
                "history": codec.enc(ex["history"]),
                "history_text": [codec.show(o) for o in ex["history"]],
            },
        )
    exhaustive = not res.capped and not res.violations
    if res.never_fired:
        out.harness_errors.append("vacuous alphabet: operations never enabled: %r" % (res.never_fired[:5],))
    zero = [k for k in getattr(check, "must_count", ()) if not res.counts.get(k)]
    if zero and exhaustive:
        out.harness_errors.append("vacuous oracle(s): no non-empty comparison for %r" % (zero,))
    cov = {
        "states": res.states,
        "transitions": max(res.transitions, 1) if res.states else 0,
        "traces_validated_against_impl": res.executions,
        "samples": res.samples or [{"note": "no transition explored"}],
        "exhaustive": exhaustive,
        "engine": "H: explicit-state BFS over API histories of the real Traph; state key = bytes of both stores + canonical reference-model state",
        "depth_completed_per_space": res.per_space,
        "capped": res.capped,
        "disabled_ops_skipped": res.disabled,
        "lockstep_lost_states_not_extended": res.broken,
        "transitions_reaching_new_state": res.changed,
        "distinct_observation_vectors": len(res.obs),
        "oracle_comparisons": dict(sorted(res.counts.items())),
        "how_model_traces_are_validated": "there is no separate model trace: every explored history is executed on the implementation in lock-step with the reference model, so traces_validated_against_impl counts histories executed",
    }
    if extra_cov:
        cov.update(extra_cov)
    out.coverage = cov
    out.wall = res.wall
    return out


def replay_hcheck(check, doc):
    tier = doc.get("tier", "quick")
    spaces = check.spaces(tier)
    cfg = Cfg.from_json(doc["cfg"])
    si = doc.get("space_index", 0)
    space = spaces[si] if si < len(spaces) else spaces[0]
    space = engine_h.Space(cfg, space.alphabet, space.depth, name=doc.get("space"))
    hist = codec.dec(doc["history"])
    return engine_h.replay(check, space, hist, isolated_for=doc.get("oracle"))
