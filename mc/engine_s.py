"""Engine S: stateless exploration of generator interleavings with preemption bounding.

Participants are *_iter requests created on one shared Traph built from a base history.
One scheduling step = one next() on one generator: the code between two yield points runs
atomically, which is the granularity C16 states (should_yield is patched to always yield,
so every loop iteration is a yield point).  The explorer is the iterative context-bounding
DFS: run(prefix) replays the prefix (an out-of-range choice is a hard error) and then always
takes choice 0 = keep running the current generator if still enabled, else the lowest id.
State hashing is deliberately not used (generator frames hold live node objects)."""
import collections
import time

from . import codec, env
from .world import build, Cfg

HORIZON = 200


class Participant(object):
    """One generator request. `make(t)` returns the generator. A query also defines
    `atomic(t)` (the same query run atomically) and `judge(answer, moments, info)`."""

    is_query = False

    def __init__(self, name, make):
        self.name = name
        self.make = make


class _Done(object):
    done = True

    def __init__(self, result):
        self.result = result


class Atomic(Participant):
    """A plain (non-generator) request taking part in a schedule as a one-step participant:
    it runs to completion at whichever yield point of the others the scheduler picks."""

    def __init__(self, name, fn):
        def make(t):
            def gen():
                yield _Done(fn(t))

            return gen()

        Participant.__init__(self, name, make)


class Query(Participant):
    is_query = True

    def __init__(self, name, make, atomic, judge):
        Participant.__init__(self, name, make)
        self.atomic = atomic
        self.judge = judge


class Execution(object):
    def __init__(self, cfg, base, participants, track=None):
        self.w, _ = build(cfg, base)
        if self.w is None:
            raise RuntimeError("base not buildable")
        self.t = self.w.t
        self.parts = participants
        self.gens = [p.make(self.t) for p in participants]
        self.done = [False] * len(participants)
        self.res = [None] * len(participants)
        self.started = [False] * len(participants)
        self.steps = [0] * len(participants)
        self.error = None
        self.moments = {i: [] for i, p in enumerate(participants) if p.is_query}
        self.track = track  # optional callable(t) -> extra per-boundary info (e.g. prefix map)
        self.track_log = {i: [] for i in self.moments}

    def enabled(self):
        return [i for i, d in enumerate(self.done) if not d]

    def _snap(self, q):
        self.moments[q].append(self.parts[q].atomic(self.t))
        if self.track:
            self.track_log[q].append(self.track(self.t))

    def step(self, i):
        if i in self.moments and not self.started[i]:
            self._snap(i)
        self.started[i] = True
        self.steps[i] += 1
        try:
            st = next(self.gens[i])
        except StopIteration:
            self.done[i] = True
            self.error = (i, "generator ended without a final state")
            return
        except Exception as e:
            self.done[i] = True
            self.error = (i, "%s: %s" % (type(e).__name__, str(e)[:200]))
            return
        if st.done:
            self.done[i] = True
            self.res[i] = st.result
        # a step of a read-only request cannot change what an atomic query answers (C14): the
        # previous snapshot stands; only writers' steps require a new one
        if not self.parts[i].is_query:
            for q in self.moments:
                if self.started[q] and not self.done[q]:
                    self._snap(q)

    def close(self):
        for g in self.gens:
            try:
                g.close()
            except Exception:
                pass
        self.w.close()


def run_schedule(cfg, base, participants, prefix, track=None, horizon=None):
    """Replay `prefix` (list of choice indices) then default choices to completion.
    Returns (execution, choices, points) with points[i] = (order, running_still_enabled)."""
    e = Execution(cfg, base, participants, track=track)
    choices = []
    points = []
    trace = []
    cur = None
    k = 0
    while True:
        en = e.enabled()
        if not en or e.error:
            break
        order = ([cur] if cur in en else []) + [x for x in en if x != cur]
        if k < len(prefix):
            c = prefix[k]
            if c >= len(order):
                e.close()
                raise RuntimeError("schedule prefix diverged: choice %d at step %d but only %d enabled" % (c, k, len(order)))
        else:
            c = 0
        points.append((order, cur in en))
        choices.append(c)
        cur = order[c]
        trace.append(cur)
        e.step(cur)
        k += 1
        if k > (horizon or getattr(run_schedule, "horizon", None) or HORIZON):
            e.error = (cur, "livelock: horizon of %d steps exceeded" % (horizon or getattr(run_schedule, "horizon", None) or HORIZON))
            break
    e.trace = trace
    return e, choices, points


def preemptions(choices, points):
    n = 0
    for c, (order, cur_en) in zip(choices, points):
        if cur_en and c != 0:
            n += 1
    return n


NEED_TRACKING = ("item-never-qualified", "item-missing", "answer-duplicate")


def evaluate(cfg, base, participants, prefix, oracle, track):
    """Execute one schedule and judge it - the one procedure used by the explorer AND by
    replays, so that a replay performs exactly the same calls as the run that found it.
    First pass without per-boundary bookkeeping; if the oracle reports an item anomaly, the
    very same schedule is re-run with bookkeeping on (needed to classify known findings)."""
    e, choices, points = run_schedule(cfg, base, participants, prefix, track=None)
    res = oracle(e)
    if track and any(r[0] in NEED_TRACKING for r in res):
        e.close()
        e, choices2, points = run_schedule(cfg, base, participants, choices, track=track)
        if choices2 != choices:
            e.close()
            raise RuntimeError("schedule diverged when replayed with tracking")
        res = oracle(e)
    return e, choices, points, res


def root_children(cfg, base, participants, bound):
    """Prefixes of the children of the default schedule: the schedule tree splits into the
    root execution plus the disjoint subtrees below these prefixes (used to shard one
    combination over several workers)."""
    e, choices, points = run_schedule(cfg, base, participants, [])
    e.close()
    out = []
    cost = 0
    for i in range(len(points)):
        order, cur_en = points[i]
        for alt in range(1, len(order)):
            c = cost + (1 if cur_en else 0)
            if bound is not None and c > bound:
                continue
            out.append(choices[:i] + [alt])
        if cur_en and choices[i] != 0:
            cost += 1
    return out


def explore(cfg, base, participants, bound, oracle, track=None, max_schedules=None, stop_on_violation=True, start=None, root_only=False):
    """All schedules with at most `bound` preemptions (None = unbounded).
    oracle(execution) -> list of (tag, msg, known). Returns stats dict, violations list.
    `start` = list of prefixes whose subtrees are explored (default: the whole tree);
    `root_only` = execute the default schedule only."""
    stats = collections.Counter()
    violations = []
    known = collections.OrderedDict()
    finals = set()
    outcomes = set()
    capped = [False]
    stack = [list(p) for p in start] if start is not None else [[]]
    while stack:
        prefix = stack.pop()
        e, choices, points, res = evaluate(cfg, base, participants, prefix, oracle, track)
        try:
            stats["schedules"] += 1
            stats["steps"] += len(choices)
            np_ = preemptions(choices, points)
            stats["max_preemptions_seen"] = max(stats["max_preemptions_seen"], np_)
            for tag, msg, kn in res:
                if kn:
                    known.setdefault(kn, (msg, list(choices), list(e.trace)))
                    stats["known_finding_schedules"] += 1
                else:
                    violations.append({"oracle": tag, "message": msg, "choices": list(choices), "trace": list(e.trace), "preemptions": np_})
            try:
                a, b = e.w.store_bytes()
                finals.add(hash(a) ^ hash(b))
            except Exception:
                pass
            outcomes.add(getattr(e, "outcome", None))
        finally:
            e.close()
        if violations and (stop_on_violation or len(violations) >= 20):
            break
        if root_only:
            break
        # children
        cost = 0
        costs = []
        for i in range(len(points)):
            costs.append(cost)
            order, cur_en = points[i]
            if cur_en and choices[i] != 0:
                cost += 1
        for i in range(len(points) - 1, len(prefix) - 1, -1):
            order, cur_en = points[i]
            for alt in range(len(order) - 1, 0, -1):
                c = costs[i] + (1 if cur_en else 0)
                if bound is not None and c > bound:
                    continue
                stack.append(choices[:i] + [alt])
        if max_schedules and stats["schedules"] >= max_schedules:
            capped[0] = bool(stack)
            break
    stats["distinct_final_byte_images"] = len(finals)
    stats["distinct_outcomes"] = len(outcomes)
    stats_sets = {"finals": finals, "outcomes": set(hash(o) for o in outcomes)}
    explore.last_sets = stats_sets
    stats["capped"] = int(capped[0])
    violations.sort(key=lambda v: (v["preemptions"], len(v["choices"])))
    return stats, violations, known
