"""LRU helpers written from the property texts (NOT from traph/helpers.py), the rule family,
and the alphabets of DESIGN.md section 5."""
import re

SEP = 0x7C  # '|'


def stems(lru):
    out = []
    last = 0
    for i, c in enumerate(lru):
        if c == SEP:
            out.append(lru[last : i + 1])
            last = i + 1
    return out


def prefixes_of(lru):
    """All stem-prefixes of lru, shortest first, lru itself included."""
    acc = b""
    out = []
    for s in stems(lru):
        acc += s
        out.append(acc)
    return out


def is_stem_prefix(p, lru):
    return lru.startswith(p) and (len(p) == 0 or p[-1] == SEP)


def closure(lrus):
    out = set()
    for l in lrus:
        out.update(prefixes_of(l))
    return out


def ref_variations(lru):
    """Scheme / trailing-www variations, computed on stems (C17's text):
    flip the scheme stem http<->https; toggle a trailing 'h:www|' host stem of the
    contiguous host run that follows the scheme (and optional port) when both host lists
    keep at least two hosts.  Order: [lru, scheme-flipped, www-toggled, both]."""
    st = stems(lru)
    if not st:
        return [lru]
    schemes = [st[0]]
    if st[0] == b"s:http|":
        schemes.append(b"s:https|")
    elif st[0] == b"s:https|":
        schemes.append(b"s:http|")
    i = 1
    if i < len(st) and st[i].startswith(b"t:"):
        i += 1
    j = i
    while j < len(st) and st[j].startswith(b"h:"):
        j += 1
    hosts = st[i:j]
    hostsets = [hosts]
    if len(hosts) >= 2:
        if hosts[-1] == b"h:www|":
            h2 = hosts[:-1]
        else:
            h2 = hosts + [b"h:www|"]
        if len(h2) >= 2:
            hostsets.append(h2)
    out = []
    for hs in hostsets:
        for sc in schemes:
            out.append(b"".join([sc] + st[1:i] + hs + st[j:]))
    return out


# ----------------------------------------------------------------------------- rule family
# Hyphe's family of creation rules (same regexes as test/config.py; copied so that the
# harness does not depend on the test directory).
_HOSTS1 = b"(h:[^\\|]+\\|(h:[^\\|]+\\|)|h:(localhost|(\\d{1,3}\\.){3}\\d{1,3}|\\[[\\da-f]*:[\\da-f:]*\\])\\|)"
_HOSTSN = b"(h:[^\\|]+\\|(h:[^\\|]+\\|)+|h:(localhost|(\\d{1,3}\\.){3}\\d{1,3}|\\[[\\da-f]*:[\\da-f:]*\\])\\|)"
_HEAD = b"(s:[a-zA-Z]+\\|(t:[0-9]+\\|)?"
RULES = {
    "never": b"(?!)",
    "domain": _HEAD + _HOSTS1 + b")",
    "subdomain": _HEAD + _HOSTSN + b")",
    "path1": _HEAD + _HOSTSN + b"(p:[^\\|]+\\|){1})",
    "path2": _HEAD + _HOSTSN + b"(p:[^\\|]+\\|){2})",
    "path3": _HEAD + _HOSTSN + b"(p:[^\\|]+\\|){3})",
}
_compiled = {}


def rule_re(kind):
    r = _compiled.get(kind)
    if r is None:
        r = _compiled[kind] = re.compile(RULES[kind], re.I)
    return r


# ----------------------------------------------------------------------------- U-core
A = b"s:http|h:com|h:a|"
Ax = A + b"p:x|"
Axy = Ax + b"p:y|"
Ab = A + b"p:b|"
Az = A + b"p:z|"
Aw = A + b"h:www|"
Awx = Aw + b"p:x|"
S = b"s:https|h:com|h:a|"
Sx = S + b"p:x|"
Sw = S + b"h:www|"
Bb = b"s:http|h:com|h:b|"
C1 = b"s:http|h:com|"
ABSENT = [
    A + b"p:a|",
    Axy + b"p:q|",
    b"s:http|h:org|",
    b"s:ftp|h:com|h:a|",
    b"s:http|",
    A + b"p:xx|",
    A + b"p:|",
]
U_CORE = [A, Ax, Axy, Ab, Az, Aw, Awx, S, Sx, Bb, C1]

NAMES = {}


def _reg():
    for k, v in list(globals().items()):
        if isinstance(v, bytes) and k[0].isupper() and k not in ("SEP",) and not k.startswith("_"):
            NAMES[v] = k


_reg()

# ----------------------------------------------------------------------------- U-long
PAYLOAD = 74


def long_stem(total_len, fill=b"a", tag=b""):
    """A path stem 'p:' + fill... + tag + '|' of exactly total_len bytes (closing '|' included).
    All long stems share the head 'p:' + 72 x 'a' whenever fill is 'a', so sibling order is
    decided in the tail."""
    body = total_len - 3 - len(tag)
    assert body >= 0
    return b"p:" + fill * body + tag + b"|"


LONG_LENGTHS = [2 + 1, 73, 74, 75, 76, 147, 148, 149, 150, 221, 222, 223]
FILL_BYTES = [b"a", b"\x00", b"{", b"}", b"\x80", b"\xff"]


def show(lru):
    """Compact printable form of an LRU for messages and samples."""
    if lru in NAMES:
        return NAMES[lru]
    s = lru.decode("latin-1")
    if len(s) > 60:
        s = s[:24] + "...<%d bytes>..." % len(lru) + s[-12:]
    return s
