"""The read-only API menu: every query of the public interface with argument combinations
(present / absent / diverging LRUs, known / unknown webentities, right / wrong / absent
prefixes, all switch settings, page sizes, tokens, partially drained iterators).

`observation_vector` = canonical results of the whole menu ("every observable answer").
`menu` yields (name, thunk) so that C14 can compare the stores around every single call."""
import itertools

from . import lru as L
from .alpha import A, Ax, Axy, Ab, Az, Aw, Awx, S, Sx, Bb, C1

PROBE_LRUS = [A, Ax, Axy, Ab, Aw, Sx, Bb, C1, A + b"p:a|", Axy + b"p:q|", b"s:http|h:org|", b"s:ftp|h:com|h:a|", b"s:http|", A + b"p:zz|"]
SW3 = list(itertools.product((False, True), repeat=3))


def canon(x):
    """Order-insensitive canonical form where the API promises no order (dict/set/Counter)."""
    if isinstance(x, dict):
        return ("dict", tuple(sorted(((canon(k), canon(v)) for k, v in x.items()), key=repr)))
    if isinstance(x, (set, frozenset)):
        return ("set", tuple(sorted((canon(v) for v in x), key=repr)))
    if isinstance(x, (list, tuple)):
        return tuple(canon(v) for v in x)
    if isinstance(x, float) and x == int(x):
        return int(x)
    if hasattr(x, "created_webentities"):
        return ("report", x.nb_created_pages, canon(x.created_webentities))
    if hasattr(x, "block") and hasattr(x, "data"):
        return ("node", x.block, canon(list(x.data)) if isinstance(x.data, list) else None)
    return x


def _drain(gen, n=None):
    out = []
    for i, item in enumerate(gen):
        if isinstance(item, tuple) and item and hasattr(item[0], "data"):
            item = tuple(canon(v) for v in item)
        elif hasattr(item, "done") and hasattr(item, "result"):
            item = ("state", item.done, canon(item.result) if item.done else None)
        out.append(item)
        if n is not None and i + 1 >= n:
            break
    if hasattr(gen, "close"):
        gen.close()
    return out


def menu(w, light=False):
    """Yield (name, thunk). Thunks return canonicalised results. `light` = the subset used as
    observation vector by the twin checks (no partially drained iterators, fewer switch
    combinations)."""
    t = w.t
    try:
        pages = sorted(lru for _, lru in t.pages_iter())
        owners = {}
        for node, lru in t.webentity_prefix_iter():
            owners.setdefault(node.webentity(), []).append(lru)
    except Exception as e:  # the enumerations the menu is built from fail: report that as the answer
        err = e

        def boom():
            raise err

        yield "pages_iter/webentity_prefix_iter", boom
        return
    for v in owners.values():
        v.sort()
    yield "pages_iter", lambda: sorted((lru, n.is_crawled()) for n, lru in t.pages_iter())
    yield "webentity_prefix_iter", lambda: sorted((lru, n.webentity()) for n, lru in t.webentity_prefix_iter())
    yield "count_pages", lambda: t.count_pages()
    yield "count_crawled_pages", lambda: t.count_crawled_pages()
    yield "count_links", lambda: canon(t.count_links())
    yield "links_iter(out)", lambda: sorted(t.links_iter(out=True))
    yield "links_iter(in)", lambda: sorted(t.links_iter(out=False))
    yield "dfs_iter", lambda: sorted(lru for _, lru in t.lru_trie.dfs_iter())
    if pages or owners:
        yield "metrics", lambda: canon(t.metrics())
        yield "links_metrics", lambda: canon(t.links_metrics())
    for l in PROBE_LRUS + [p for p in pages if p not in PROBE_LRUS][:6]:
        yield "retrieve_webentity(%s)" % L.show(l), (lambda l=l: t.retrieve_webentity(l))
        yield "retrieve_prefix(%s)" % L.show(l), (lambda l=l: t.retrieve_prefix(l))
        yield "get_potential_prefix(%s)" % L.show(l), (lambda l=l: t.get_potential_prefix(l))
        yield "get_webentity_by_prefix(%s)" % L.show(l), (lambda l=l: t.get_webentity_by_prefix(l))
        yield "expand_prefix(%s)" % L.show(l), (lambda l=l: t.expand_prefix(l))
        for sw in (SW3 if not light else [(True, True, True)]):
            yield "get_page_links(%s,%s)" % (L.show(l), sw), (lambda l=l, sw=sw: sorted(map(tuple, t.get_page_links(l, include_inbound=sw[0], include_internal=sw[1], include_outbound=sw[2]))))
        for wt in (False, True):
            yield "get_page_indegree(%s,%s)" % (L.show(l), wt), (lambda l=l, wt=wt: t.get_page_indegree(l, weighted=wt))
            yield "get_page_outdegree(%s,%s)" % (L.show(l), wt), (lambda l=l, wt=wt: t.get_page_outdegree(l, weighted=wt))
            yield "get_page_degree(%s,%s)" % (L.show(l), wt), (lambda l=l, wt=wt: t.get_page_degree(l, weighted=wt))
    for out in (True, False):
        for auto in (True, False):
            yield "get_webentities_links(%s,%s)" % (out, auto), (lambda out=out, auto=auto: canon(t.get_webentities_links(out=out, include_auto=auto)))
            yield "get_webentities_links_slow(%s,%s)" % (out, auto), (lambda out=out, auto=auto: canon(t.get_webentities_links_slow(out=out, include_auto=auto)))
    yield "get_webentities_inlinks", lambda: canon(t.get_webentities_inlinks())
    yield "get_webentities_outlinks", lambda: canon(t.get_webentities_outlinks(include_auto=True))
    # per webentity: known ids with right prefixes, wrong prefixes, absent prefixes; unknown id
    combos = []
    for wid, pl in sorted(owners.items()):
        combos.append((wid, pl))
        if len(pl) > 1:
            combos.append((wid, list(reversed(pl))))
    if not light:
        some = sorted(owners)[:1]
        for wid in some:
            combos.append((wid, [Ab]))  # a prefix that is not the webentity's
            combos.append((wid, [A + b"p:nope|"]))  # a prefix absent from the index
            combos.append((wid, []))
        combos.append((9999, [A]))  # unknown webentity
        combos.append((9999, [b"s:http|h:org|"]))
    for wid, pl in combos:
        tag = "%s,%s" % (wid, [L.show(p) for p in pl])
        yield "get_webentity_pages(%s)" % tag, (lambda wid=wid, pl=pl: sorted((d["lru"], d["crawled"]) for d in t.get_webentity_pages(wid, pl)))
        yield "get_webentity_crawled_pages(%s)" % tag, (lambda wid=wid, pl=pl: sorted((d["lru"], d["crawled"]) for d in t.get_webentity_crawled_pages(wid, pl)))
        yield "get_webentity_parent_webentities(%s)" % tag, (lambda wid=wid, pl=pl: sorted(t.get_webentity_parent_webentities(wid, pl)))
        yield "get_webentity_child_webentities(%s)" % tag, (lambda wid=wid, pl=pl: sorted(t.get_webentity_child_webentities(wid, pl)))
        yield "get_webentity_outlinks(%s)" % tag, (lambda wid=wid, pl=pl: canon(set(t.get_webentity_outlinks(wid, pl))))
        yield "get_webentity_inlinks(%s)" % tag, (lambda wid=wid, pl=pl: canon(set(t.get_webentity_inlinks(wid, pl))))
        yield "get_webentity_degrees(%s)" % tag, (lambda wid=wid, pl=pl: (t.get_webentity_outdegree(wid, pl), t.get_webentity_indegree(wid, pl), t.get_webentity_degree(wid, pl)))
        for sw in (SW3 if not light else [(True, True, True), (False, True, False)]):
            yield "get_webentity_pagelinks(%s,%s)" % (tag, sw), (lambda wid=wid, pl=pl, sw=sw: sorted(map(tuple, t.get_webentity_pagelinks(wid, pl, include_inbound=sw[0], include_internal=sw[1], include_outbound=sw[2]))))
        for k, md in ((1, None), (3, 1), (10, 0)) if not light else ((10, None),):
            yield "get_webentity_most_linked_pages(%s,%s,%s)" % (tag, k, md), (lambda wid=wid, pl=pl, k=k, md=md: [(d["lru"], d["indegree"]) for d in t.get_webentity_most_linked_pages(wid, pl, pages_count=k, max_depth=md)])
        # pagination: full, then chains with page sizes, every token resumed
        for k in (None, 1, 2) if not light else (None, 2):
            for crawled_only in (False, True) if not light else (False,):
                yield "paginate_webentity_pages(%s,k=%s,crawled_only=%s)" % (tag, k, crawled_only), (lambda wid=wid, pl=pl, k=k, co=crawled_only: _page_chain(t, wid, pl, k, co))
            for sw in ((True, False), (False, True), (True, True)) if not light else ((True, True),):
                yield "paginate_webentity_pagelinks(%s,k=%s,%s)" % (tag, k, sw), (lambda wid=wid, pl=pl, k=k, sw=sw: _link_chain(t, wid, pl, k, sw))
        if not light:
            yield "paginate_webentity_pagelinks(%s,all-false)" % tag, (lambda wid=wid, pl=pl: t.paginate_webentity_pagelinks(wid, pl, include_internal=False, include_outbound=False))
            # partially drained generators (closed without running to completion)
            yield "get_webentity_pages_iter partial(%s)" % tag, (lambda wid=wid, pl=pl: len(_drain(t.get_webentity_pages_iter(wid, pl), 1)))
            yield "get_webentity_pagelinks_iter partial(%s)" % tag, (lambda wid=wid, pl=pl: len(_drain(t.get_webentity_pagelinks_iter(wid, pl, include_inbound=True, include_outbound=True), 1)))
            yield "webentity_page_nodes_iter partial(%s)" % tag, (lambda wid=wid, pl=pl: len(_drain(t.webentity_page_nodes_iter(wid, pl), 1)))
    if not light:
        yield "pages_iter partial", lambda: len(_drain(t.pages_iter(), 2))
        yield "links_iter partial", lambda: len(_drain(t.links_iter(), 1))
        yield "get_webentities_links_iter partial", lambda: len(_drain(t.get_webentities_links_iter(), 1))
        yield "get_webentities_links_slow_iter partial", lambda: len(_drain(t.get_webentities_links_slow_iter(), 1))
        yield "lru_trie.nodes_iter", lambda: len(_drain(t.lru_trie.nodes_iter()))
        yield "link_store.nodes_iter", lambda: len(_drain(t.link_store.nodes_iter()))
        yield "bst_metrics+trie metrics", lambda: canon((t.lru_trie.metrics(), t.lru_trie.bst_metrics(), t.link_store.metrics())) if (pages or owners) else None


def _page_chain(t, wid, pl, k, crawled_only):
    tok = None
    out = []
    for _ in range(60):
        r = t.paginate_webentity_pages(wid, pl, page_count=k, pagination_token=tok, crawled_only=crawled_only)
        out.append(canon(r))
        if r["done"]:
            break
        tok = r["token"]
    return tuple(out)


def _link_chain(t, wid, pl, k, sw):
    tok = None
    out = []
    for _ in range(60):
        r = t.paginate_webentity_pagelinks(wid, pl, include_internal=sw[0], include_outbound=sw[1], source_page_count=k, pagination_token=tok)
        r2 = dict(r)
        r2["pagelinks"] = sorted(map(tuple, r["pagelinks"]))
        out.append(canon(r2))
        if r["done"]:
            break
        tok = r["token"]
    return tuple(out)


def call(w, thunk):
    """Run one menu entry; classify the outcome."""
    try:
        return ("ok", thunk())
    except w.TraphException as e:
        return ("traph-error", str(e)[:80])
    except Exception as e:
        return ("failure", "%s: %s" % (type(e).__name__, str(e)[:80]))


def observation_vector(w, light=True):
    return tuple((name, call(w, th)) for name, th in menu(w, light=light))
