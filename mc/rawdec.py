"""Independent raw decoder of lru_trie.dat / link_store.dat (own struct parsing; nothing is
imported from the tree under check) and the structural invariants of C02's quantifier."""
import struct

NODE = struct.Struct("75pBI6Q")
BS = NODE.size  # 128
assert BS == 128
PAYLOAD = 74
F_PAGE, F_CRAWLED, F_LINKED, F_DELETED, F_RULE, F_HAS_TAIL, F_IS_TAIL, F_NO_CHILD_WE = range(8)
STUB = struct.Struct("QQ")
LBS = STUB.size  # 16


class Block(object):
    __slots__ = ("off", "chunk", "flags", "weid", "left", "right", "child", "parent", "out", "inl", "stem", "ntail", "lru")

    def flag(self, bit):
        return bool((self.flags >> bit) & 1)


class Trie(object):
    def __init__(self):
        self.errors = []
        self.blocks = {}  # offset -> Block (heads and tails)
        self.heads = {}  # offset -> Block
        self.by_lru = {}  # full lru -> Block
        self.nblocks = 0
        self.ntails = 0
        self.last_id = None


def decode_trie(data):
    t = Trie()
    E = t.errors
    if len(data) % BS:
        E.append("trie length %d is not a multiple of %d" % (len(data), BS))
        return t
    n = len(data) // BS
    t.nblocks = n
    if n == 0:
        E.append("trie has no header block")
        return t
    t.last_id = struct.unpack_from("I", data, 0)[0]
    prev_has_tail = False
    head = None
    for i in range(1, n):
        off = i * BS
        f = NODE.unpack_from(data, off)
        b = Block()
        b.off = off
        b.chunk, b.flags, b.weid, b.left, b.right, b.child, b.parent, b.out, b.inl = f
        b.stem = None
        b.ntail = 0
        b.lru = None
        t.blocks[off] = b
        is_tail = b.flag(F_IS_TAIL)
        if is_tail != prev_has_tail:
            if is_tail:
                E.append("block %d is flagged as tail but is chained to no head (unreferenced block)" % off)
            else:
                E.append("block %d follows a block announcing a tail but is not flagged as tail" % off)
        if is_tail and prev_has_tail and head is not None:
            head.stem += b.chunk
            head.ntail += 1
            t.ntails += 1
            if b.flag(F_HAS_TAIL) and len(b.chunk) != PAYLOAD:
                E.append("non-final tail block %d holds %d bytes" % (off, len(b.chunk)))
            if not b.chunk:
                E.append("empty tail block %d" % off)
            if any((b.weid, b.left, b.right, b.child, b.parent, b.out, b.inl)):
                E.append("tail block %d carries pointers" % off)
        elif is_tail:
            t.ntails += 1
        else:
            head = b
            b.stem = b.chunk
            t.heads[off] = b
            if b.flag(F_HAS_TAIL) and len(b.chunk) != PAYLOAD:
                E.append("head block %d announces a tail but holds %d bytes" % (off, len(b.chunk)))
        prev_has_tail = b.flag(F_HAS_TAIL)
    if prev_has_tail:
        E.append("last block announces a tail that is not there")
    return t


def check_trie(data):
    """Decode and check the ternary-search-tree invariants. Returns the Trie (errors inside)."""
    t = decode_trie(data)
    E = t.errors
    if E and not t.blocks and t.nblocks != 1:
        return t
    heads = t.heads
    for b in heads.values():
        s = b.stem
        if not s or s[-1:] != b"|" or b"|" in s[:-1]:
            E.append("block %d: stem %r is not a single closed stem" % (b.off, s[:40]))
    refs = dict.fromkeys(heads, 0)

    def ref(src, what, off):
        if off % BS or off not in heads:
            E.append("block %d: %s pointer %d is not a head block" % (src, what, off))
            return False
        refs[off] += 1
        return True

    root = BS
    if heads:
        if root not in heads:
            E.append("first data block is not a head")
            return t
        refs[root] += 1
    for b in heads.values():
        for what, p in (("left", b.left), ("right", b.right), ("child", b.child)):
            if p:
                ref(b.off, what, p)
    for off, c in refs.items():
        if c != 1:
            E.append("block %d is referenced %d times" % (off, c))
    if E:
        return t
    # traversal: sibling sets are strict BSTs on full stems; parents consistent
    visited = set()
    # iterative: stack of (sibling-root offset, parent offset, lru prefix)
    stack = [(root, 0, b"")] if heads else []
    while stack:
        sroot, parent, prefix = stack.pop()
        # in-order walk of this sibling BST with bounds
        st = [(sroot, None, None)]
        while st:
            off, lo, hi = st.pop()
            if off in visited:
                E.append("block %d reached twice" % off)
                continue
            visited.add(off)
            b = heads[off]
            if b.parent != parent:
                E.append("block %d: parent pointer %d, expected %d" % (off, b.parent, parent))
            if lo is not None and not b.stem > lo:
                E.append("block %d: stem %r not greater than %r (BST order)" % (off, b.stem[:30], lo[:30]))
            if hi is not None and not b.stem < hi:
                E.append("block %d: stem %r not smaller than %r (BST order)" % (off, b.stem[:30], hi[:30]))
            b.lru = prefix + b.stem
            if b.lru in t.by_lru:
                E.append("LRU %r stored twice" % (b.lru[:60],))
            t.by_lru[b.lru] = b
            if b.left:
                st.append((b.left, lo, b.stem))
            if b.right:
                st.append((b.right, b.stem, hi))
            if b.child:
                stack.append((b.child, off, b.lru))
    if len(visited) != len(heads):
        E.append("%d head blocks unreachable from the root" % (len(heads) - len(visited)))
    return t


class Links(object):
    def __init__(self):
        self.errors = []
        self.nstubs = 0
        self.out = {}  # page block offset -> list of target offsets (list order: newest first)
        self.inl = {}


def check_links(trie, data):
    """Every stub is reachable from exactly one list head held by a trie block."""
    k = Links()
    E = k.errors
    if len(data) % LBS:
        E.append("link store length %d is not a multiple of %d" % (len(data), LBS))
        return k
    n = len(data) // LBS
    if n == 0:
        E.append("link store has no header block")
        return k
    k.nstubs = n - 1
    used = {}
    for b in trie.heads.values():
        for side, head in (("out", b.out), ("in", b.inl)):
            if not head:
                continue
            lst = []
            off = head
            guard = 0
            while off:
                if off % LBS or off < LBS or off >= len(data):
                    E.append("block %d %s-list: stub pointer %d out of range" % (b.off, side, off))
                    break
                if off in used:
                    E.append("stub %d reachable from two places (%s and block %d %s)" % (off, used[off], b.off, side))
                    break
                used[off] = "block %d %s" % (b.off, side)
                tgt, prev = STUB.unpack_from(data, off)
                if tgt not in trie.heads:
                    E.append("stub %d targets %d which is not a head block" % (off, tgt))
                lst.append(tgt)
                off = prev
                guard += 1
                if guard > n:
                    E.append("cycle in list of block %d" % b.off)
                    break
            (k.out if side == "out" else k.inl)[b.off] = lst
    if len(used) != k.nstubs:
        E.append("%d stubs are reachable from no list head" % (k.nstubs - len(used)))
    return k
