"""Shared alphabets: operation constructors, base states (roots), probe sets (DESIGN section 5)."""
from . import lru as L
from .lru import A, Ax, Axy, Ab, Az, Aw, Awx, S, Sx, Sw, Bb, C1


def page(u, crawled=False):
    return ("page", u, bool(crawled))


def pages(us, crawled=False):
    return ("pages", tuple(us), bool(crawled))


def links(*pairs):
    return ("links", tuple((s, t) for s, t in pairs))


def crawl(*items):
    return ("crawl", tuple((s, tuple(ts)) for s, ts in items))


def pcrawl(nsteps, *items):
    return ("pcrawl", tuple((s, tuple(ts)) for s, ts in items), nsteps)


def create(*prefixes):
    return ("create", tuple(prefixes))


def delete(idx, mode="all"):
    return ("delete", idx, mode)


def addprefix(p, idx):
    return ("addprefix", p, idx)


def rmprefix(p, mode="noid"):
    return ("rmprefix", p, mode)


def move(p, idx, mode="noid"):
    return ("move", p, idx, mode)


def rule(anchor, kind):
    return ("rule", anchor, kind)


def unrule(anchor):
    return ("unrule", anchor)


def as_str(op):
    return ("as_str", op)


def as_iter(op):
    return ("as_iter", op)


def crawl_alias(src, tg1, tg2):
    return ("crawl_alias", src, tuple(tg1), tuple(tg2))


REOPEN = ("reopen",)
OBS = ("obs",)


def resolve(lru):
    return ("resolve", lru)


def prefix_edit_ops():
    """Every route by which the attached-prefix map changes (besides automatic creation)."""
    return [
        create(Ax),
        create(Axy, Bb),
        delete(0),
        delete(1),
        delete(0, "first"),
        delete(1, "plusforeign"),
        addprefix(Ab, 0),
        addprefix(Axy, 1),
        rmprefix(Ax),
        rmprefix(A),
        rmprefix(Aw, "right"),
        move(Ax, 0),
        move(Ab, 1),
    ]


def clear(default, rules=()):
    return ("clear", default, tuple(sorted(dict(rules).items())))


# ----------------------------------------------------------------------------- link batch shapes
LB_SINGLE = links((Ax, Ab))
LB_REPEAT = links((Ax, Ab), (Ax, Ab))
LB_BOTHDIR = links((Ax, Ab), (Ab, Ax))
LB_SELF = links((Axy, Axy), (Ax, Bb))
LB_EXTEND = links((Ax, Axy), (Axy, Ax))  # target extends source / source extends target
LB_SIBLINGS = links((Ax, Ab), (Ax, Az))  # BST-left / BST-right siblings of the source
LB_SRC_AND_TGT = links((A, Ax), (Ax, Ab), (Ab, A))  # pages that are source and target in one batch
CB_SEVERAL = crawl((A, (Ax, Sx)), (Ab, ()))  # several targets; empty target list
CB_CROSS = crawl((Ax, (Axy, A)), (Axy, (Ax,)))  # a source that was a target earlier, and vice versa
CB_KNOWN = crawl((Ax, (Ab, Ab)), (Ab, (Ab,)))  # repeated target, self link of a crawled page

# ----------------------------------------------------------------------------- base states
R0 = ()
# "nested": pages at a prefix node, a child chain, BST siblings, www + https variants,
# an extra webentity nested on Ax (to be run under default=domain)
R1 = (
    page(A),
    page(Ax, True),
    page(Axy),
    page(Ab),
    page(Aw),
    page(Sx, True),
    create(Ax),
)
# "linked": R1 plus one batch covering the link shapes
R2 = R1 + (
    links((Ax, Ab), (Ax, Ab), (Ab, Ax), (Axy, Axy), (Ax, Axy), (A, Ax), (Sx, A), (Aw, Ab)),
)
# "multi-prefix": one webentity owning A, S, Aw (default=domain creates exactly that), with
# link-bearing and link-less pages spread over the prefixes
R4 = (
    page(A),
    page(Ab),
    page(Az, True),
    page(Sx),
    page(S + b"p:k|", True),
    page(Awx),
    links((Ab, Sx), (Sx, Ab), (Awx, Bb), (Az, Az)),
)


def long_lrus(lengths=(75, 148, 149, 3, 74, 223), fill=b"a"):
    """U-long, one level under A: stems sharing a 74-byte head when fill is 'a'."""
    return [A + L.long_stem(n, fill) for n in lengths]


def R3():
    ll = long_lrus()
    return tuple(page(u, i % 2 == 0) for i, u in enumerate(ll))


def all_crawl_batches(pages, max_sources=2, max_targets=2):
    """Every crawl batch with 1..max_sources distinct sources (ordered) over `pages`, each with
    an ordered target list of 0..max_targets pages (repetitions and self allowed)."""
    import itertools

    tlists = [()]
    for n in range(1, max_targets + 1):
        tlists += list(itertools.product(pages, repeat=n))
    out = []
    for ns in range(1, max_sources + 1):
        for srcs in itertools.permutations(pages, ns):
            for tl in itertools.product(tlists, repeat=ns):
                out.append(crawl(*zip(srcs, tl)))
    return out


def all_link_batches(pages, max_links=3):
    """Every add_links batch of 1..max_links links (ordered, repetitions and self-links allowed)."""
    import itertools

    pairs = list(itertools.product(pages, repeat=2))
    out = []
    for n in range(1, max_links + 1):
        for seq in itertools.product(pairs, repeat=n):
            out.append(links(*seq))
    return out


def shape_lrus(max_depth=3, classes=(3, 74, 75, 148, 149, 222)):
    """Every LRU A + s1 .. sk (k <= max_depth) with stem lengths drawn from `classes`
    (short, exactly one block, one byte more, two blocks, ...): the stem-length *shapes*."""
    import itertools

    out = []
    for k in range(1, max_depth + 1):
        for lens in itertools.product(classes, repeat=k):
            out.append(A + b"".join(L.long_stem(n, bytes([0x61 + i])) for i, n in enumerate(lens)))
    return out


def orders(pl, full_upto=4):
    """Orders in which a prefix list is handed to a query: every permutation when the list has
    at most `full_upto` entries (24 for 4), else the sorted list, its reverse and all rotations
    of both (every prefix gets to be first, last, before and after every other one)."""
    import itertools

    pl = list(pl)
    if len(pl) <= full_upto:
        return [list(o) for o in itertools.permutations(pl)]
    out = []
    for base in (pl, list(reversed(pl))):
        for i in range(len(pl)):
            o = base[i:] + base[:i]
            if o not in out:
                out.append(o)
    return out


def few_orders(pl):
    """A cheaper covering set: sorted, reversed and every rotation of both (<= 2n orders)."""
    return orders(pl, full_upto=1)


def many_prefix_root(n=12):
    """One webentity owning n sibling prefixes (more than ten: two-digit prefix indexes in
    pagination tokens), pages and links under the last ones."""
    prefs = tuple(Bb + b"p:w%02d|" % i for i in range(n))
    ops = [create(*prefs)]
    for i in (0, n - 3, n - 2, n - 1):
        ops.append(page(prefs[i] + b"p:a|", i % 2 == 0))
        ops.append(page(prefs[i] + b"p:b|"))
        ops.append(links((prefs[i] + b"p:a|", prefs[i] + b"p:b|"), (prefs[i] + b"p:b|", Bb + b"p:out|")))
    return tuple(ops)


SH = b"s:http|"  # a one-stem prefix (scheme-wide catch-all webentity)
LONGP = Ab + L.long_stem(149)  # a page with a 3-block stem below Ab
LONGQ = Ab + L.long_stem(222, b"q")  # exactly three blocks: the last tail chunk is full

PROBES = [A, Ax, Axy, Ab, Az, Aw, Awx, S, Sx, Bb, C1] + L.ABSENT
