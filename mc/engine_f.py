"""Engine F: write-log prefix (crash) enumeration.

A history is executed on logging file objects (interposed below FileStorage, see mc/env.py):
log = [create trie, create links, w1, w2, ...] in program order across both files.  For every
n the two files are materialised from log[:n] in a fresh folder (in-place rewrites applied
whole, appends whole) and, for every append, also at byte cuts of that last append.  Then the
real Traph is opened on the folder and queried."""
import collections
import os

from . import codec, env
from . import lru as L
from .world import World, Cfg, Disabled

TRIE, LINKS = "lru_trie.dat", "link_store.dat"


def record(cfg, hist):
    """Run hist on a fresh file-backed world with logging. Returns
    (log, marks, final observation, rules in RAM after each op) or None if disabled."""
    with env.OpenLogger() as lg:
        w = World(cfg)
        marks = [len(lg.log)]
        rules_after = [dict(w.m.rules)]
        ever_pages, ever_links = set(), collections.Counter()
        try:
            for op in hist:
                tr = w.apply(op)
                if tr.unexpected_failure:
                    w.close()
                    return None
                marks.append(len(lg.log))
                rules_after.append(dict(w.m.rules))
                if op[0] == "clear" or op is hist[-1]:
                    pass
                # what a request boundary reports (a clear makes the completed history report
                # less than an earlier boundary did: a cut inside the clear may still show the
                # state before it)
                pg, lk = snapshot(w.t, w.TraphException)
                ever_pages |= pg
                for k_, v_ in lk.items():
                    ever_links[k_] = max(ever_links[k_], v_)
        except Disabled:
            w.close()
            return None
        if not hist:
            ever_pages, ever_links = snapshot(w.t, w.TraphException)
        final = (ever_pages, ever_links)
        default = w.m.default
        w.close()
    return list(lg.log), marks, final, rules_after, default


def snapshot(t, TE):
    """What the completed history reports: pages and weighted links."""
    pages = set(lru for _, lru in t.pages_iter())
    links = collections.Counter()
    for p in pages:
        for s, tg, wt in t.get_page_links(p, include_inbound=False, include_internal=True, include_outbound=True):
            links[(s, tg)] += wt
    return pages, links


def materialise(log, n, folder, partial=None):
    """Write both files as they are after the first n log entries (the last one cut to
    `partial` bytes if it is an append)."""
    files = {}
    for i in range(n):
        name, pos, data = log[i]
        if pos == "create":
            files[name] = bytearray()
            continue
        b = files[name]
        if i == n - 1 and partial is not None:
            assert pos == len(b)
            data = data[:partial]
        b[pos : pos + len(data)] = data
    env.wipe(folder)
    os.makedirs(folder)
    for name, b in files.items():
        with open(os.path.join(folder, name), "wb") as f:
            f.write(b)
    return {k: len(v) for k, v in files.items()}


def is_append(log, n):
    """Is entry n-1 an append (its offset equals the current length of its file)?"""
    name, pos, data = log[n - 1]
    if pos == "create":
        return False
    size = 0
    for name2, pos2, data2 in log[: n - 1]:
        if name2 != name:
            continue
        if pos2 == "create":
            size = 0
        else:
            size = max(size, pos2 + len(data2))
    return pos == size


def probe(ns, folder, default, rules, final, sizes):
    """Open the folder with the real Traph and run the query battery.
    Returns (status, violations)."""
    Traph, TE = ns["Traph"], ns["TraphException"]
    viol = []
    try:
        t = Traph(folder=folder, default_webentity_creation_rule=L.RULES[default], webentity_creation_rules={a: L.RULES[k] for a, k in rules.items()})
    except TE as e:
        partial = (sizes.get(TRIE, 0) % 128 != 0) or (sizes.get(LINKS, 0) % 16 != 0)
        one_missing = (TRIE in sizes) != (LINKS in sizes)
        if not (partial or one_missing):
            viol.append(("refused-without-reason", "reopening was refused (%s) although both stores exist and hold whole blocks (%r)" % (e, sizes)))
        return "refused", viol
    except Exception as e:
        viol.append(("open-failed", "reopening failed with %s: %s (sizes %r)" % (type(e).__name__, e, sizes)))
        return "open-failed", viol
    fpages, flinks = final
    try:
        def guard(name, fn):
            try:
                return fn()
            except TE:
                return None
            except Exception as e:
                viol.append(("query-failed:" + name.split("(")[0], "%s failed after the cut: %s: %s" % (name, type(e).__name__, e)))
                return None

        pages = guard("pages_iter", lambda: [(lru, n.is_crawled()) for n, lru in t.pages_iter()]) or []
        guard("count_pages", t.count_pages)
        guard("count_crawled_pages", t.count_crawled_pages)
        guard("dfs_iter", lambda: [l for _, l in t.lru_trie.dfs_iter()])
        lo = guard("links_iter(out)", lambda: list(t.links_iter(out=True))) or []
        li = guard("links_iter(in)", lambda: list(t.links_iter(out=False))) or []
        prefixes = guard("webentity_prefix_iter", lambda: [(lru, n.webentity()) for n, lru in t.webentity_prefix_iter()]) or []
        guard("get_webentities_links(out)", lambda: t.get_webentities_links(out=True, include_auto=True))
        guard("get_webentities_links(in)", lambda: t.get_webentities_links(out=False))
        guard("get_webentities_links_slow", lambda: t.get_webentities_links_slow(out=True))
        guard("links_metrics", t.links_metrics)
        guard("count_links", t.count_links)
        if pages or prefixes:
            guard("metrics", t.metrics)
        got_pages = set()
        for p, _ in pages:
            got_pages.add(p)
            if p not in fpages:
                viol.append(("page-not-in-completed-history", "page %s is reported after the cut but not by the completed history" % L.show(p)))
            guard("retrieve_webentity(%s)" % L.show(p), lambda p=p: t.retrieve_webentity(p))
            guard("get_potential_prefix(%s)" % L.show(p), lambda p=p: t.get_potential_prefix(p))
            pl = guard("get_page_links(%s)" % L.show(p), lambda p=p: t.get_page_links(p)) or []
            for s, tg, wt in pl:
                if flinks.get((s, tg), 0) < wt:
                    viol.append(("link-not-in-completed-history", "link %s -> %s x%d is reported after the cut; the completed history reports weight %d" % (L.show(s), L.show(tg), wt, flinks.get((s, tg), 0))))
        for s, tg in lo:
            if (s, tg) not in flinks:
                viol.append(("link-not-in-completed-history", "link %s -> %s enumerated after the cut but not in the completed history" % (L.show(s), L.show(tg))))
        for tg, s in li:
            if (s, tg) not in flinks:
                viol.append(("link-not-in-completed-history", "inbound link %s -> %s enumerated after the cut but not in the completed history" % (L.show(s), L.show(tg))))
        byw = collections.defaultdict(list)
        for lru, wid in prefixes:
            byw[wid].append(lru)
        for wid, pl in byw.items():
            guard("get_webentity_pages(%r)" % wid, lambda wid=wid, pl=pl: t.get_webentity_pages(wid, pl))
            guard("get_webentity_pagelinks(%r)" % wid, lambda wid=wid, pl=pl: t.get_webentity_pagelinks(wid, pl, include_inbound=True, include_outbound=True))
            guard("paginate_webentity_pages(%r)" % wid, lambda wid=wid, pl=pl: t.paginate_webentity_pages(wid, pl, page_count=2))
    finally:
        try:
            t.close()
        except Exception:
            pass
    return "opened", viol


def cuts_of_history(ns, cfg, hist, byte_cuts="some", folder=None, only_last_op=True):
    """Enumerate the cuts of one history. With only_last_op, cuts lie within the last request
    (cuts inside earlier requests belong to the shorter histories, explored on their own).
    Yields (n, partial, status, violations)."""
    rec = record(cfg, hist)
    if rec is None:
        return
    log, marks, final, rules_after, default = rec
    folder = folder or env.fresh_folder("crash")
    lo = marks[-2] if (only_last_op and len(marks) >= 2) else 0
    if not hist:
        lo = 0
    try:
        for n in range(lo, len(log) + 1):
            if only_last_op and hist and n == lo and n != 0:
                pass  # state before the last request = end of the shorter history; still cheap to check
            # rules in RAM: those known once the request in progress completes (superset)
            k = 0
            while k + 1 < len(marks) and marks[k + 1] < n:
                k += 1
            rules = rules_after[min(k + 1, len(rules_after) - 1)]
            sizes = materialise(log, n, folder)
            status, viol = probe(ns, folder, default, rules, final, sizes)
            yield n, None, status, viol
            if n >= 1 and is_append(log, n):
                ln = len(log[n - 1][2])
                if byte_cuts == "all":
                    cutset = range(1, ln)
                else:
                    cutset = sorted({1, ln // 2, ln - 1} - {0, ln})
                for c in cutset:
                    sizes = materialise(log, n, folder, partial=c)
                    status, viol = probe(ns, folder, default, rules, final, sizes)
                    yield n, c, status, viol
    finally:
        env.wipe(folder)
