"""The reference model: boring on purpose (dicts, sets, Counters).

It is run in lock-step with the real Traph by mc.world.World; it is never explored on its
own.  Everything here is written from the property texts."""
import collections
import hashlib
import itertools

from . import lru as L


class Model(object):
    def __init__(self, default_kind, rules):
        self.pages = {}  # lru -> crawled
        self.links = collections.Counter()  # (src, tgt) -> submissions
        self.prefix = {}  # lru -> webentity id
        self.named = set(rules)  # LRUs named in a write; closure = what must be locatable
        self.rules = dict(rules)  # anchor -> rule kind (name in L.RULES)
        self.default = default_kind
        self.max_id = 0  # highest id reported since creation / clear
        self.issued = []  # every id reported since creation / clear, in order

    # ------------------------------------------------------------------ resolution
    def resolve(self, lru):
        best = None
        for p in L.prefixes_of(lru):
            if p in self.prefix:
                best = p
        return best

    def resolve_id(self, lru):
        p = self.resolve(lru)
        return None if p is None else self.prefix[p]

    def K(self, lru):
        """Longest prefix proposed by the rules anchored on stem-prefixes of lru."""
        best = b""
        for p in L.prefixes_of(lru):
            kind = self.rules.get(p)
            if kind is not None:
                m = L.rule_re(kind).search(lru)
                if m and len(m.group()) > len(best):
                    best = m.group()
        return best

    def ladder(self, lru):
        """(E, K, create?) per C06: default rule only when no rule proposes and E is absent."""
        E = self.resolve(lru)
        K = self.K(lru)
        if not K and E is None:
            m = L.rule_re(self.default).search(lru)
            K = m.group() if m else b""
        create = bool(K) and len(K) > (len(E) if E is not None else 0)
        return E, K, create

    def potential(self, lru):
        E, K, create = self.ladder(lru)
        if create:
            return K
        return E  # may be None: nothing proposes, nothing exists

    def predict_creation(self, lru):
        """Prefix list a page insertion of lru must create now, or None."""
        E, K, create = self.ladder(lru)
        if not create:
            return None
        valid = [v for v in L.ref_variations(K) if v not in self.prefix]
        # K itself is unowned here (K longer than E and K is a stem-prefix of lru)
        return valid or None

    # ------------------------------------------------------------------ page batches
    def insert_pages(self, items):
        """items: ordered (lru, crawled) as the request inserts them.
        Returns (number of new pages, list of predicted created prefix lists).
        Page set is updated; predicted ownership is held under temporary ids and removed
        again: the caller adopts the real ids from the write report."""
        news = 0
        created = []
        tmp = []
        for lru, crawled in items:
            if lru not in self.pages:
                news += 1
                self.pages[lru] = bool(crawled)
            elif crawled:
                self.pages[lru] = True
            self.named.add(lru)
            cr = self.predict_creation(lru)
            if cr:
                created.append(sorted(cr))
                for p in cr:
                    self.prefix[p] = ("tmp", len(created))
                    tmp.append(p)
        for p in tmp:
            del self.prefix[p]
        return news, created

    def rule_outcomes(self, anchor, cap=6):
        """Set of possible creation outcomes of installing a rule on `anchor` (already put in
        self.rules): one per permutation of re-inserting every page beneath the anchor.
        Each outcome is a sorted tuple of sorted prefix tuples. None when too many pages."""
        under = sorted(p for p in self.pages if L.is_stem_prefix(anchor, p))
        if len(under) > cap:
            return None
        outs = set()
        for perm in itertools.permutations(under):
            saved = dict(self.prefix)
            cl = []
            for x in perm:
                cr = self.predict_creation(x)
                if cr:
                    cl.append(tuple(sorted(cr)))
                    for p in cr:
                        self.prefix[p] = ("tmp", len(cl))
            self.prefix = saved
            outs.add(tuple(sorted(cl)))
        return outs

    def adopt(self, created):
        """Adopt ids/prefixes a write report says were created."""
        for wid in sorted(k for k in created if isinstance(k, int)):
            for p in created[wid]:
                self.prefix[p] = wid
                self.named.add(p)
            self.issued.append(wid)
            if wid > self.max_id:
                self.max_id = wid

    # ------------------------------------------------------------------ views
    def live_ids(self):
        return sorted(set(self.prefix.values()))

    def prefixes_by_id(self):
        d = collections.defaultdict(list)
        for p, w in self.prefix.items():
            d[w].append(p)
        for w in d:
            d[w].sort()
        return d

    def closure(self):
        return L.closure(self.named)

    def canon(self):
        h = hashlib.blake2b(digest_size=16)
        h.update(repr(sorted(self.pages.items())).encode())
        h.update(repr(sorted(self.links.items())).encode())
        h.update(repr(sorted(self.prefix.items())).encode())
        h.update(repr(sorted(self.named)).encode())
        h.update(repr(sorted(self.rules.items())).encode())
        h.update(repr((self.default, self.max_id, self.issued)).encode())
        return h.digest()
