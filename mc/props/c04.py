"""C04 Webentity resolution is longest-prefix match over the net prefix edits."""
from .. import alpha as al
from .. import lru as L
from ..alpha import A, Ax, Axy, Ab, Az, Aw, Awx, S, Sx, Bb, C1
from ..engine_h import HCheck, Space
from ..hcommon import run_hcheck, replay_hcheck
from ..world import Cfg

ID = "C04"
LEVEL = "model_checking"
ASSUMPTIONS = [
    "bounds: histories up to the depth reported per space over nested (C1 < A < Ax < Axy) and sibling prefixes",
    "trusted base: CPython, tmpfs file semantics, the reference model (dict prefix -> id)",
    "automatic creations are adopted from the write reports (predicting them is C06's business)",
    "ids handed in by the caller are ids the index issued",
]
PROBES = [A, Ax, Axy, Axy + b"p:q|", Ab, Az, Aw, Awx, S, Sx, Bb, C1, b"s:http|", b"s:http|h:org|", A + b"p:a|", A + b"p:xx|", A + b"p:y|", b"s:ftp|h:com|h:a|", Ax + b"p:a|", Ax + b"p:z|", b"s:a|", b"s:zzz|h:x|"]


class Check(HCheck):
    pid = ID
    owned = ("create", "delete", "addprefix", "rmprefix", "move", "create_many", "as_str")
    must_count = ("resolved_nested", "resolved_absent_lru", "unresolved", "refusals_checked")

    def spaces(self, tier):
        thorough = tier == "thorough"
        ops = [
            al.create(A),
            al.create(Ax),
            al.create(Axy, Ab),
            al.create(C1),
            al.create(Ax, Bb),  # refused as a whole when Ax is taken
            al.delete(0),
            al.delete(1),
            al.delete(0, "first"),
            al.delete(0, "wrongid"),
            al.delete(0, "plusforeign"),  # own prefixes first, then one it does not own: refused, nothing unset
            al.delete(1, "plusforeign"),
            al.addprefix(Ax, 0),
            al.addprefix(Az, 1),
            al.rmprefix(Ax),
            al.rmprefix(A, "right"),
            al.rmprefix(Ax, "wrong"),
            al.move(Ax, 0),
            al.move(A, 1, "right"),
            al.move(Ab, 0, "wrong"),
            al.page(Axy),
            al.create(A + b"p:a|"),  # a prefix every earlier state looked up and found absent
        ]
        sp = [Space(Cfg("never"), ops, 5 if thorough else 4, name="edits/never")]
        # single resolution queries as letters: "resolve X; edit; resolve X" with X the last
        # query before and the first after the edit (a one-entry memo is only visible then)
        rops = [al.resolve(p) for p in (A, Ax, Axy, Ab, Awx)] + [al.create(A), al.create(Ax), al.create(C1), al.delete(0), al.delete(1), al.rmprefix(Ax), al.addprefix(Axy, 0), al.move(Ax, 0), al.page(Axy), al.rule(A, "path1"), al.unrule(A), al.clear("never")]
        sp.append(Space(Cfg("never"), rops, 4 if thorough else 3, roots=[al.R0, (al.create(A), al.create(Ax))], name="resolve-edit-resolve/never", dedup=False))
        ops2 = [
            al.page(Ax),
            al.page(Axy, True),
            al.page(Sx),
            al.page(Awx),
            al.page(Bb),
            al.create(Ax),
            al.create(C1),
            al.delete(0),
            al.delete(1),
            al.addprefix(Axy, 0),
            al.rmprefix(A),
            al.rmprefix(S, "right"),
            al.move(Aw, 1),
            al.rule(Ax, "path2"),
            al.LB_EXTEND,
        ]
        # prefixes on multi-block stems that share their first 74 bytes (resolution must
        # compare full stems), nested two levels deep
        l75, l76, l148 = (A + L.long_stem(n) for n in (75, 76, 148))
        deep = l76 + L.long_stem(149, b"\xff")
        self.long_probes = [l75, l76, l148, deep, l75 + b"p:k|", l76 + b"p:k|", A + L.long_stem(77), A + L.long_stem(74), l148 + L.long_stem(75)]
        ops3 = [al.create(l75), al.create(l76), al.create(l148, deep), al.addprefix(l76 + b"p:k|", 0), al.rmprefix(l75), al.delete(0), al.page(deep + b"p:z|"), al.move(l148, 0), al.create(A)]
        sp.append(Space(Cfg("never"), ops3, 5 if thorough else 4, name="edits/long-stems"))
        # ids beyond the small range: a caller-chosen id (the API accepts any) and 260 creations
        big = [("create_many", Bb, 260), al.addprefix(Az, ("id", 300)), al.addprefix(Ax, ("id", 70000)), al.create(A), al.rmprefix(Az, "right"), al.rmprefix(Ax, "right"), al.rmprefix(Bb + b"p:0258|", "right"), al.move(Bb + b"p:0259|", 0, "right"), al.rmprefix(Az, "wrong"), al.delete(2)]
        sp.append(Space(Cfg("never"), big, 3, name="edits/large-ids"))
        # constructor argument `encoding`: a latin-1 index driven with str LRUs holding a
        # non-ASCII letter, for writes and for queries alike
        E1 = b"s:http|h:fr|h:caf\xe9|"
        E2 = E1 + b"p:th\xe9|"
        self.enc_probes = [E1, E2, E2 + b"p:x|", b"s:http|h:fr|", E1 + b"p:a|"]
        eops = [al.as_str(al.create(E1)), al.as_str(al.create(E2)), al.create(b"s:http|h:fr|"), al.as_str(al.page(E2 + b"p:x|")), al.delete(0), al.rmprefix(E1), al.addprefix(E1 + b"p:a|", 0)]
        sp.append(Space(Cfg("never", encoding="latin-1", query_str=True), eops, 4 if thorough else 3, name="edits/latin-1+str"))
        sp.append(Space(Cfg("domain", {A: "path1"}), ops2, 4 if thorough else 3, roots=[al.R0, al.R1], name="edits+auto/domain+path1"))
        return sp

    def check_trans(self, w, tr, ctx):
        if tr.op[0] in self.owned and tr.expect_refusal:
            ctx.count("refusals_checked")

    def check_state(self, w, ctx):
        t, m = w.t, w.m
        TE = w.TraphException
        got = sorted((lru, node.webentity()) for node, lru in t.webentity_prefix_iter())
        ctx.obs(got)
        if got != sorted(m.prefix.items()):
            ctx.fail("prefix-map", "attached prefixes %s differ from the net effect of the edits %s" % (_sh(got), _sh(sorted(m.prefix.items()))))
            return
        first = [w.last_obs] if getattr(w, "last_obs", None) else []
        probes = first + PROBES + getattr(self, "long_probes", [])
        if w.cfg.query_str:
            probes = first + list(self.enc_probes)
        for l in probes:
            e = m.resolve(l)
            for what, fn in (("webentity", t.retrieve_webentity), ("prefix", t.retrieve_prefix)):
                try:
                    g = fn(w.q(l))
                    err = None
                except TE:
                    g, err = None, "lib"
                except Exception as ex:
                    g, err = None, "%s: %s" % (type(ex).__name__, ex)
                if err not in (None, "lib"):
                    ctx.fail("resolve-failed", "resolving the %s of %s failed with %s" % (what, L.show(l), err))
                    return
                exp = None if e is None else (m.prefix[e] if what == "webentity" else e)
                if e is None:
                    ctx.count("unresolved")
                    if err is None:
                        ctx.fail("resolve-should-fail", "resolving the %s of %s returned %r although no stem-prefix carries a webentity" % (what, L.show(l), g))
                        return
                else:
                    if len(e) < len(l):
                        ctx.count("resolved_nested")
                    if l not in m.named and l not in m.closure():
                        ctx.count("resolved_absent_lru")
                    if err is not None or g != exp:
                        ctx.fail("resolve-wrong", "resolving the %s of %s gave %r, expected %r (longest attached stem-prefix %s)" % (what, L.show(l), "library error" if err else g, exp, L.show(e)))
                        return
        for p in ([] if w.cfg.query_str else PROBES):
            if True:
                try:
                    g = t.get_webentity_by_prefix(p)
                except TE:
                    g = None
                if g != m.prefix.get(p):
                    ctx.fail("by-prefix", "webentity attached exactly to %s is %r, expected %r" % (L.show(p), g, m.prefix.get(p)))


def _sh(items):
    return "{" + ", ".join("%s: %s" % (L.show(l), wd) for l, wd in items[:8]) + "}"


CHECK = Check()


def run(tier, seed, log=print):
    return run_hcheck(CHECK, tier, seed, log)


def replay(doc):
    return replay_hcheck(CHECK, doc)
