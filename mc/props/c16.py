"""C16 Cooperative interleaving of iterator requests is safe."""
import collections
import itertools
import multiprocessing
import os
import random
import time

from .. import alpha as al
from .. import codec, engine_s, env, guard
from .. import lru as L
from ..alpha import A, Ax, Axy, Ab, Az, Aw, Awx, S, Sx, Sw, Bb, C1
from ..engine_s import Participant, Query, Atomic
from ..run import Outcome
from ..world import Cfg, build

ID = "C16"
LEVEL = "model_checking"
ASSUMPTIONS = [
    "one scheduling step = one next() on one generator; TraphIteratorState.should_yield is replaced by 'count, then always True', so every loop iteration is a yield point",
    "all pairs of the participant menu are explored with an unbounded preemption budget, all listed triples with at most 2 (thorough 4) preemptions; every execution runs to completion (horizon 200 steps)",
    "a query 'qualifies at a moment' = the same query run atomically at a step boundary of its lifetime (before its first step, after every step of any participant until its last step)",
    "network weights are bounded by the atomic answers only in schedule sets where no participant changes page->webentity resolution; otherwise only 'ids exist at some boundary, weights <= final total' is asserted",
    "final pages / links are compared with the same requests applied one after another on a fresh twin",
]
KNOWN_SIG = "page-created-under-prefix-attached-during-walk"
KNOWN_SIG2 = "link-end-changed-webentity-during-walk"
P1, P2, Pn = Ab + b"p:1|", Ab + b"p:2|", A + b"p:n|"
LONG = A + L.long_stem(149)
PT = Ab + b"p:t|"  # a page below Ab that a path-2 rule on Ab turns into a webentity of its own
WE1 = [A, S, Aw, Sw]


def base_history():
    # R2 ("linked") plus a multi-block stem page that carries links: exposes any reliance on
    # the file cursor across yield points (file back-end)
    return al.R2 + (al.page(LONG, True), al.links((LONG, Ab), (Az, LONG)), al.page(PT), al.links((Ab, PT)))


# ------------------------------------------------------------------------------- observations
def pages_set(t, wid, prefixes):
    try:
        return frozenset(d["lru"] for d in t.get_webentity_pages(wid, prefixes))
    except Exception:
        return frozenset()


class PMap(dict):
    """(source, target) -> weight of the atomic page-link answer; .mult = how many times the
    atomic answer lists each pair (a pair may legitimately appear twice when the prefixes
    handed to the query no longer delimit the webentity)."""

    mult = None


def plinks_map_sw(t, wid, prefixes, inb, inte, outb):
    m = PMap()
    m.mult = collections.Counter()
    try:
        for a, b, w in t.get_webentity_pagelinks(wid, prefixes, include_inbound=inb, include_internal=inte, include_outbound=outb):
            m[(a, b)] = w
            m.mult[(a, b)] += 1
    except Exception:
        pass
    return m


def plinks_map(t, wid, prefixes):
    m = PMap()
    m.mult = collections.Counter()
    try:
        for a, b, w in t.get_webentity_pagelinks(wid, prefixes, include_inbound=True, include_internal=True, include_outbound=True):
            m[(a, b)] = w
            m.mult[(a, b)] += 1
    except Exception:
        pass
    return m


def network(t, out=True):
    g = t.get_webentities_links(out=out, include_auto=True)
    return {(a, b): v for a, c in g.items() for b, v in c.items() if not isinstance(b, str) and v}


def track(t):
    """Per-boundary bookkeeping for the known-finding classifier: pages and attached prefixes."""
    return (frozenset(lru for _, lru in t.pages_iter()), frozenset(lru for _, lru in t.webentity_prefix_iter()))


def classify_ghost(page, query_prefixes, tracks, t_final):
    """DESIGN 7 / D10: the walk of a query continues below a node that acquired its own
    webentity after the walk had passed it. Signature: the page's resolving webentity prefix
    (in the final state) was attached during the query's lifetime, strictly below one of the
    queried prefixes."""
    if not tracks:
        return False  # first pass runs without bookkeeping; the schedule is re-run with it
    pages0, prefixes0 = tracks[0]
    try:
        p = t_final.retrieve_prefix(page)
    except Exception:
        return False
    if not p or p in prefixes0:
        return False
    if not L.is_stem_prefix(p, page):
        return False
    return any(L.is_stem_prefix(q, p) and q != p for q in query_prefixes)


def resolving_prefix(page, prefixes):
    best = None
    for p in L.prefixes_of(page):
        if p in prefixes:
            best = p
    return best


def classify_missing_link(link, tracks):
    """Second known finding: a link is missed although it qualified at every boundary, because
    one of its end pages changed webentity during the query (it qualified first in one role,
    e.g. internal, then in another, e.g. inbound, and the walk visited neither end in the
    right role)."""
    if not tracks:
        return False
    for end in link:
        first = resolving_prefix(end, tracks[0][1])
        if any(resolving_prefix(end, tr[1]) != first for tr in tracks[1:]):
            return True
    return False


# ------------------------------------------------------------------------------- judges
def judge_pages(wid, prefixes):
    def judge(e, qi):
        ans = e.res[qi]
        ms = e.moments[qi]
        lrus = [d["lru"] for d in ans]
        out = []
        if len(set(lrus)) != len(lrus):
            out.append(("answer-duplicate", "the page query lists a page twice: %s" % [L.show(x) for x in lrus], None))
        got = frozenset(lrus)
        lo = frozenset.intersection(*ms)
        hi = frozenset.union(*ms)
        miss = lo - got
        if miss:
            out.append(("item-missing", "page(s) %s belonged to webentity %r at every step boundary of the query but are not in its answer" % ([L.show(x) for x in sorted(miss)], wid), None))
        for g in sorted(got - hi):
            kn = KNOWN_SIG if classify_ghost(g, prefixes, e.track_log[qi], e.t) else None
            out.append(("item-never-qualified", "page %s is in the answer of the page query on webentity %r although it belonged to it at no step boundary of the query" % (L.show(g), wid), kn))
        return out

    return judge


def judge_plinks(wid, prefixes, walked_end=None):
    """walked_end = 0 when every listed link comes from the walk of its SOURCE page (no inbound
    switch): the known finding (walk continues below a prefix attached during the walk) then
    requires that very page to lie below the new prefix, not the other end."""

    def judge(e, qi):
        ans = e.res[qi]
        ms = e.moments[qi]
        out = []
        got = {}
        mult = collections.Counter()
        for a, b, w in ans:
            mult[(a, b)] += 1
            got[(a, b)] = w
        for (a, b), n in mult.items():
            allowed = max([m.mult[(a, b)] for m in ms] + [1])
            if n > allowed:
                kn = KNOWN_SIG if any(classify_ghost(x, prefixes, e.track_log[qi], e.t) for x in (a, b)) else None
                out.append(("answer-duplicate", "the page-link query lists %s -> %s %d times (the atomic query at most %d)" % (L.show(a), L.show(b), n, allowed), kn))
        keys_all = set(ms[0])
        keys_any = set()
        for m in ms:
            keys_all &= set(m)
            keys_any |= set(m)
        for k in sorted(keys_all - set(got)):
            kn = KNOWN_SIG2 if classify_missing_link(k, e.track_log[qi]) else None
            out.append(("item-missing", "link %s -> %s qualified for webentity %r at every step boundary of the query but is not in its answer" % (L.show(k[0]), L.show(k[1]), wid), kn))
        for k in sorted(set(got) - keys_any):
            kn = None
            for end in (k if walked_end is None else (k[walked_end],)):
                if classify_ghost(end, prefixes, e.track_log[qi], e.t):
                    kn = KNOWN_SIG
            out.append(("item-never-qualified", "link %s -> %s is in the answer of the page-link query on webentity %r although it qualified at no step boundary" % (L.show(k[0]), L.show(k[1]), wid), kn))
        for k, w in got.items():
            ws = [m[k] for m in ms if k in m]
            if ws and not (w <= max(ws)):
                out.append(("weight-out-of-range", "link %s -> %s reported with weight %d; at the step boundaries it had %r" % (L.show(k[0]), L.show(k[1]), w, sorted(set(ws))), None))
            if k in keys_all and w < min(ws):
                out.append(("weight-out-of-range", "link %s -> %s reported with weight %d; at the step boundaries it had %r" % (L.show(k[0]), L.show(k[1]), w, sorted(set(ws))), None))
        return out

    return judge


def judge_network(stable):
    def judge(e, qi):
        ans = e.res[qi]
        got = {(a, b): v for a, c in ans.items() for b, v in c.items() if not isinstance(b, str) and v}
        ms = e.moments[qi]
        out = []
        keys_all = set(ms[0])
        keys_any = set()
        ids_any = set()
        for m in ms:
            keys_all &= set(m)
            keys_any |= set(m)
            for a, b in m:
                ids_any.update((a, b))
        total = sum(ms[-1].values()) if ms else 0
        final_total = sum(v for v in network(e.t).values())
        if stable:
            for k in sorted(keys_all - set(got)):
                out.append(("item-missing", "webentity link %r existed at every step boundary of the network query but is not in its answer" % (k,), None))
            for k in sorted(set(got) - keys_any):
                out.append(("item-never-qualified", "webentity link %r is in the network answer although it existed at no step boundary" % (k,), None))
            for k, w in got.items():
                ws = [m[k] for m in ms if k in m]
                if ws and (w > max(ws) or (k in keys_all and w < min(ws))):
                    out.append(("weight-out-of-range", "webentity link %r reported with weight %d; at the step boundaries it had %r" % (k, w, sorted(set(ws))), None))
        else:
            for (a, b), w in got.items():
                if w > max(final_total, total):
                    out.append(("weight-out-of-range", "webentity link %r reported with weight %d, more than all page links together" % ((a, b), w), None))
        return out

    return judge


def judge_set(what, wid):
    """Set-valued answers (cited / citing / child webentities): between the intersection and
    the union of the atomic answers (None = 'no webentity' is ignored)."""

    def judge(e, qi):
        ans = e.res[qi]
        got = frozenset(x for x in ans if x is not None)
        ms = [frozenset(x for x in m if x is not None) for m in e.moments[qi]]
        out = []
        lo = frozenset.intersection(*ms)
        hi = frozenset.union(*ms)
        if lo - got:
            out.append(("item-missing", "%s of webentity %r: %r was in the atomic answer at every step boundary but is not in the answer %r" % (what, wid, sorted(lo - got), sorted(got)), None))
        if got - hi:
            out.append(("item-never-qualified", "%s of webentity %r: %r is in the answer although it was in the atomic answer at no step boundary (atomic answers: %r)" % (what, wid, sorted(got - hi), sorted(hi)), None))
        return out

    return judge


def _safe(fn):
    def g(t):
        try:
            return frozenset(fn(t))
        except Exception:
            return frozenset()

    return g


def judge_most(wid, prefixes):
    def judge(e, qi):
        ans = e.res[qi]
        ms = e.moments[qi]
        hi = frozenset.union(*ms)
        out = []
        lrus = [d["lru"] for d in ans]
        if len(set(lrus)) != len(lrus):
            out.append(("answer-duplicate", "the most-linked query lists a page twice", None))
        for g in lrus:
            if g not in hi:
                kn = KNOWN_SIG if classify_ghost(g, prefixes, e.track_log[qi], e.t) else None
                out.append(("item-never-qualified", "page %s is in the most-linked answer of webentity %r although it belonged to it at no step boundary" % (L.show(g), wid), kn))
        return out

    return judge


# ------------------------------------------------------------------------------- menu
def menu():
    R = L.RULES
    m = collections.OrderedDict()
    m["crawlA"] = Participant("crawlA", lambda t: t.index_batch_crawl_iter({Ab: [P1, Az], Az: [Ab, LONG]}, 1))
    m["crawlB"] = Participant("crawlB", lambda t: t.index_batch_crawl_iter({Az: [Ab, Pn], P1: [Az], LONG: [P2]}, 1))
    m["crawlC"] = Participant("crawlC", lambda t: t.index_batch_crawl_iter({Axy: [Ax + b"p:k|", Ab], Sx: [Axy]}, 1))
    m["crawlE"] = Participant("crawlE", lambda t: t.index_batch_crawl_iter({Az: [PT], Axy: [PT, Az]}, 1))
    m["crawlD"] = Participant("crawlD", lambda t: t.index_batch_crawl_iter({Ab: [P1, Az], Az: [P2], P2: [Ab + b"p:3|"]}, 1))
    # sizes: one page cited by 600 sources in one batch, while another batch touches that page
    m["crawlBig"] = Participant("crawlBig", lambda t: t.index_batch_crawl_iter({Az + b"p:%03d|" % i: [Ab] for i in range(600)}, 1))
    m["crawlT"] = Participant("crawlT", lambda t: t.index_batch_crawl_iter({Ab: [Ab + b"p:new|", Az], Az: [Ab]}, 1))
    # one source citing 1 100 targets (thorough tier only: 1 100 yield points)
    m["crawlWide"] = Participant("crawlWide", lambda t: t.index_batch_crawl_iter({Ab: [Ab + b"p:t%04d|" % i for i in range(1100)]}, 1))
    m["rule"] = Participant("rule", lambda t: t.add_webentity_creation_rule_iter(A, R["path1"]))
    m["rule2"] = Participant("rule2", lambda t: t.add_webentity_creation_rule_iter(Ab, R["path2"]))
    # plain requests interleaved at the yield points of the generators (one step each)
    m["linksX"] = Atomic("linksX", lambda t: t.add_links([(Ab, Pn), (Az, Ab), (P1, Ab)]))
    m["pageX"] = Atomic("pageX", lambda t: t.add_page(Ab + b"p:0|", crawled=True))
    m["pagesX"] = Atomic("pagesX", lambda t: t.add_pages([Az + b"p:k|", Az], crawled=True))
    m["createX"] = Atomic("createX", lambda t: t.create_webentity([Ab]))
    m["deleteX"] = Atomic("deleteX", lambda t: t.delete_webentity(2, [Ax]))
    m["pages1"] = Query("pages1", lambda t: t.get_webentity_pages_iter(1, WE1), lambda t: pages_set(t, 1, WE1), judge_pages(1, WE1))
    m["pages2"] = Query("pages2", lambda t: t.get_webentity_crawled_pages_iter(2, [Ax]), lambda t: frozenset(d["lru"] for d in t.get_webentity_crawled_pages(2, [Ax])), judge_pages(2, [Ax]))
    m["plinks1"] = Query("plinks1", lambda t: t.get_webentity_pagelinks_iter(1, WE1, include_inbound=True, include_internal=True, include_outbound=True), lambda t: plinks_map(t, 1, WE1), judge_plinks(1, WE1))
    m["plinks1i"] = Query(
        "plinks1i",
        lambda t: t.get_webentity_pagelinks_iter(1, WE1, include_inbound=False, include_internal=True, include_outbound=False),
        lambda t: plinks_map_sw(t, 1, WE1, False, True, False),
        judge_plinks(1, WE1, walked_end=0),
    )
    m["plinks2"] = Query("plinks2", lambda t: t.get_webentity_pagelinks_iter(2, [Ax], include_inbound=True, include_internal=True, include_outbound=True), lambda t: plinks_map(t, 2, [Ax]), judge_plinks(2, [Ax]))
    m["net"] = Query("net", lambda t: t.get_webentities_links_iter(out=True, include_auto=True), lambda t: network(t, True), None)
    m["netin"] = Query("netin", lambda t: t.get_webentities_links_iter(out=False, include_auto=True), lambda t: network(t, False), None)
    m["outl1"] = Query("outl1", lambda t: t.get_webentity_outlinks_iter(1, WE1), _safe(lambda t: t.get_webentity_outlinks(1, WE1)), judge_set("cited webentities", 1))
    m["inl1"] = Query("inl1", lambda t: t.get_webentity_inlinks_iter(1, WE1), _safe(lambda t: t.get_webentity_inlinks(1, WE1)), judge_set("citing webentities", 1))
    m["outl2"] = Query("outl2", lambda t: t.get_webentity_outlinks_iter(2, [Ax]), _safe(lambda t: t.get_webentity_outlinks(2, [Ax])), judge_set("cited webentities", 2))
    m["child1"] = Query("child1", lambda t: t.get_webentity_child_webentities_iter(1, WE1), _safe(lambda t: t.get_webentity_child_webentities(1, WE1)), judge_set("child webentities", 1))
    m["netslow"] = Query("netslow", lambda t: t.get_webentities_links_slow_iter(out=True, include_auto=True), lambda t: network(t, True), None)
    m["most1"] = Query("most1", lambda t: t.get_webentity_most_linked_pages_iter(1, WE1, pages_count=3), lambda t: pages_set(t, 1, WE1), judge_most(1, WE1))
    return m


RESOLUTION_CHANGERS = {"rule", "rule2", "createX", "deleteX"}


def combos(tier):
    """(backend, participants, preemption bound or None=unbounded). Pairs are unbounded
    whenever the number of interleavings stays below ~25 000; longer pairs and all triples
    are preemption-bounded (bounds per tier)."""
    thorough = tier == "thorough"
    U = None
    pairs = [
        (("crawlA", "crawlB"), U, U),
        (("crawlA", "crawlC"), U, U),
        (("crawlA", "rule"), 4, U),
        (("crawlB", "rule2"), U, U),
        (("crawlA", "pages1"), U, U),
        (("crawlC", "plinks2"), U, U),
        (("crawlC", "pages2"), U, U),
        (("crawlA", "most1"), 4, 6),
        (("rule", "pages1"), U, U),
        (("rule", "rule2"), U, U),
        (("crawlB", "plinks1"), 3, 5),
        (("rule", "plinks1"), 3, 5),
        (("crawlA", "net"), 3, 5),
        (("crawlB", "netin"), 3, 5),
        (("rule", "net"), 3, 5),
        (("plinks1", "plinks2"), 2, 3),
        # the remaining *_iter queries, against writers and against one another (two
        # traversals / two link-list walks suspended at the same time)
        (("crawlA", "outl1"), 3, 5),
        (("crawlB", "inl1"), 3, 5),
        (("crawlC", "outl2"), 3, 6),
        (("crawlA", "child1"), 3, 5),
        (("rule", "child1"), 3, 5),
        (("crawlA", "netslow"), 2, 4),
        (("outl1", "inl1"), 2, 3),
        (("outl1", "outl2"), 2, 3),
        (("outl1", "plinks2"), 2, 3),
        (("inl1", "net"), 2, 3),
        (("pages1", "pages2"), 2, 3),
        (("pages1", "child1"), 2, 3),
        (("netslow", "outl2"), 2, 3),
        # a plain request landing at every yield point of a generator
        (("crawlBig", "crawlT"), U, U),
        (("crawlBig", "linksX"), U, U),
        (("crawlA", "linksX"), U, U),
        (("crawlB", "linksX"), U, U),
        (("crawlA", "pageX"), U, U),
        (("crawlA", "pagesX"), U, U),
        (("crawlA", "createX"), U, U),
        (("rule", "linksX"), U, U),
        (("rule", "pageX"), U, U),
        (("pages1", "createX"), U, U),
        (("pages1", "pageX"), U, U),
        (("plinks1", "linksX"), U, U),
        (("plinks1", "createX"), U, U),
        (("crawlC", "deleteX"), U, U),
        (("net", "linksX"), U, U),
        (("net", "pageX"), U, U),
        (("most1", "linksX"), U, U),
    ]
    triples = [
        (("crawlA", "crawlB", "pages1"), 2, 3),
        (("crawlA", "crawlB", "plinks1"), 2, 3),
        (("crawlA", "crawlB", "net"), 2, 3),
        (("crawlA", "rule", "pages1"), 2, 4),
        (("crawlB", "rule", "pages1"), 2, 4),
        (("crawlA", "rule", "plinks1"), 2, 3),
        (("crawlA", "crawlB", "crawlC"), 2, 4),
        (("crawlA", "plinks1", "plinks2"), 2, 3),
        (("crawlB", "rule2", "most1"), 2, 4),
        (("crawlA", "rule", "net"), 2, 3),
        (("crawlD", "rule", "pages1"), 2, 3),
        (("crawlD", "rule", "plinks1"), 2, 3),
        (("crawlD", "rule", "plinks1i"), 2, 3),
        (("crawlA", "rule", "plinks1i"), 2, 3),
        (("crawlB", "rule", "plinks1i"), 2, 3),
        (("crawlE", "rule2", "plinks1i"), 3, 3),
        (("crawlE", "rule2", "plinks1"), 2, 3),
        (("crawlD", "rule", "most1"), 2, 3),
        (("crawlA", "linksX", "plinks1"), 2, 3),
        (("crawlA", "createX", "pages1"), 2, 4),
        (("crawlB", "pageX", "net"), 2, 3),
    ]
    if thorough:
        pairs = pairs + [(("crawlWide", "linksX"), U, U)]
    out = []
    # quick: everything on the file back-end (the production path), the memory back-end for the
    # write/write combinations and two triples; thorough: everything on both
    memory_quick = {("crawlA", "crawlB"), ("crawlA", "crawlC"), ("crawlB", "rule2"), ("crawlA", "crawlB", "pages1"), ("crawlD", "rule", "pages1")}
    for backend in ("file", "memory"):
        for names, q, th in pairs + triples:
            if backend == "memory" and not thorough and names not in memory_quick:
                continue
            out.append((backend, names, th if thorough else q))
    # longest first, so that the pool is balanced
    return out


# ------------------------------------------------------------------------------- oracle
def links_of(t):
    outg = collections.Counter()
    ing = collections.Counter()
    pages = []
    for node, lru in t.pages_iter():
        pages.append((lru, bool(node.is_crawled())))
    for p, _ in pages:
        for s, tg, w in t.get_page_links(p, include_inbound=True, include_internal=True, include_outbound=True):
            if s == p:
                outg[(s, tg)] += w  # outbound or internal side of p
            else:
                ing[(s, tg)] += w  # inbound side of p
    return sorted(pages), outg, ing


def sequential_twin(cfg, base, parts):
    w, _ = build(cfg, base)
    try:
        for p in parts:
            for st in p.make(w.t):
                pass
        pages, outg, ing = links_of(w.t)
    finally:
        w.close()
    return pages, outg


def make_oracle(parts, twin):
    names = [p.name for p in parts]
    stable = not (set(names) & RESOLUTION_CHANGERS)
    tpages, tout = twin

    def oracle(e):
        out = []
        if e.error:
            i, msg = e.error
            out.append(("request-failed", "request %s failed at its step %d: %s" % (names[i], e.steps[i], msg), None))
            return out
        try:
            pages, outg, ing = links_of(e.t)
        except Exception as ex:
            out.append(("final-state-unreadable", "the final state cannot be enumerated: %s: %s" % (type(ex).__name__, ex), None))
            return out
        e.outcome = (tuple(pages), tuple(sorted(outg.items())))
        if pages != tpages:
            out.append(("final-pages", "final pages differ from the batches applied one after another: %s vs %s" % (_shp(pages, tpages), _shp(tpages, pages)), None))
        if outg != tout:
            out.append(("final-links", "final link multigraph differs from the batches applied one after another: only here %s, only there %s" % (_shl(outg - tout), _shl(tout - outg)), None))
        sym = collections.Counter({k: v for k, v in outg.items() if k[0] != k[1]})
        if sym != ing:
            out.append(("in-out-asymmetry", "outbound and inbound sides disagree: outbound only %s, inbound only %s" % (_shl(sym - ing), _shl(ing - sym)), None))
        for qi, p in enumerate(parts):
            if not p.is_query:
                continue
            j = p.judge if p.judge is not None else judge_network(stable)
            out.extend(j(e, qi))
        return out

    return oracle


def _shp(a, b):
    return [("%s%s" % (L.show(l), "*" if c else "")) for l, c in a if (l, c) not in b][:6]


def _shl(c):
    return ["%s->%s x%d" % (L.show(a), L.show(b), w) for (a, b), w in sorted(c.items())[:6]]


# ------------------------------------------------------------------------------- driver
def _setup(backend, names):
    env.load()
    env.patch_always_yield()
    m = menu()
    parts = [m[n] for n in names]
    cfg = Cfg("domain", backend=backend)
    return parts, cfg, base_history()


def _work(args):
    """One shard of one combination: shard = None (whole tree), 'root' or a list of subtree prefixes."""
    backend, names, bound, shard = args
    try:
        parts, cfg, base = _setup(backend, names)
        engine_s.run_schedule.horizon = 2600 if "crawlWide" in names else None
        twin = sequential_twin(cfg, base, parts)
        kw = {}
        if shard == "root":
            kw["root_only"] = True
        elif shard is not None:
            kw["start"] = shard
        stats, viols, known = engine_s.explore(cfg, base, parts, bound, make_oracle(parts, twin), track=track, stop_on_violation=False, **kw)
        sets = engine_s.explore.last_sets
        return args, stats, viols[:10], known, sets, None
    except Exception:
        import traceback

        return args, None, None, None, None, traceback.format_exc()[-900:]


def shard_tasks(tasks, nshards=6):
    """Split every combination into the root execution + groups of root-children subtrees."""
    out = []
    for backend, names, bound in tasks:
        parts, cfg, base = _setup(backend, names)
        engine_s.run_schedule.horizon = 2600 if "crawlWide" in names else None
        kids = engine_s.root_children(cfg, base, parts, bound)
        out.append((backend, names, bound, "root"))
        groups = [kids[i::nshards] for i in range(nshards)]
        for g in groups:
            if g:
                out.append((backend, names, bound, g))
    return out


def run(tier, seed, log=print):
    env.load()
    env.scratch_root()
    combos_ = combos(tier)
    tasks = shard_tasks(combos_)
    out = Outcome()
    total = collections.Counter()
    t0 = time.time()
    agg = {}
    seen_tags = {}
    with multiprocessing.get_context("fork").Pool(min(16, os.cpu_count() or 1)) as pool:
        results = guard.imap(pool, _work, tasks)
        while True:
            try:
                args, stats, viols, known, sets, err = next(results)
            except StopIteration:
                break
            except guard.Stuck as st:
                backend, names, bound, shard = st.task
                pre = shard[0] if isinstance(shard, list) and shard else []
                seen_tags["request-hangs"] = {"oracle": "request-hangs", "message": "a schedule of this combination does not come back (a request hangs or kills its process)", "choices": list(pre), "trace": list(pre), "preemptions": 0, "backend": backend, "names": names}
                break
            backend, names, bound, shard = args
            if err:
                out.harness_errors.append("engine S %s/%s: %s" % (backend, "+".join(names), err))
                continue
            for k in ("schedules", "steps", "known_finding_schedules"):
                total[k] += stats[k]
            a = agg.setdefault((backend, names, bound), {"schedules": 0, "finals": set(), "outcomes": set(), "maxp": 0})
            a["schedules"] += stats["schedules"]
            a["finals"] |= sets["finals"]
            a["outcomes"] |= sets["outcomes"]
            a["maxp"] = max(a["maxp"], stats["max_preemptions_seen"])
            for sig, (msg, choices, trace) in known.items():
                if sig not in out.known:
                    out.known[sig] = (msg + "   [%s back-end; participants %s; schedule %s]" % (backend, "+".join(names), "".join(str(x) for x in trace)), {"engine": "S", "oracle": "known", "tier": tier, "backend": backend, "participants": list(names), "choices": choices, "trace": trace})
            for v in viols:
                old = seen_tags.get(v["oracle"])
                if old is not None and (old["preemptions"], len(old["trace"])) <= (v["preemptions"], len(v["trace"])):
                    continue
                v = dict(v, backend=backend, names=names)
                seen_tags[v["oracle"]] = v
    for tag, v in seen_tags.items():
        out.violations.append(
            {
                "oracle": tag,
                "message": "%s   [%s back-end; participants %s; %d preemptions; schedule (participant index per step) %s]" % (v["message"], v["backend"], "+".join(v["names"]), v["preemptions"], "".join(str(x) for x in v["trace"])),
                "replay": {"engine": "S", "tier": tier, "backend": v["backend"], "participants": list(v["names"]), "choices": v["choices"], "trace": v["trace"]},
            }
        )
    per_combo = []
    for (backend, names, bound), a in sorted(agg.items(), key=lambda kv: (kv[0][0], kv[0][1])):
        per_combo.append({"backend": backend, "participants": list(names), "preemption_bound": "unbounded" if bound is None else bound, "schedules": a["schedules"], "distinct_final_byte_images": len(a["finals"]), "distinct_page_link_outcomes": len(a["outcomes"]), "max_preemptions_seen": a["maxp"]})
    total["combos"] = len(per_combo)
    rng = random.Random(seed)
    samples = [{"backend": c["backend"], "participants": c["participants"], "preemption_bound": c["preemption_bound"], "schedules": c["schedules"]} for c in rng.sample(per_combo, min(5, len(per_combo)))]
    log("  [S] combinations=%d shards=%d schedules=%d steps=%d known-finding schedules=%d violations=%d t=%.1fs" % (total["combos"], len(tasks), total["schedules"], total["steps"], total["known_finding_schedules"], len(out.violations), time.time() - t0))
    multi_outcome = [c for c in per_combo if c["distinct_page_link_outcomes"] != 1]
    out.coverage = {
        "states": total["steps"],
        "transitions": max(total["steps"], 1),
        "traces_validated_against_impl": total["schedules"],
        "samples": samples or [{"note": "nothing explored"}],
        "exhaustive": not out.violations and not out.harness_errors,
        "engine": "S: stateless exploration of every interleaving of generator steps (pairs: unbounded preemptions unless stated; triples: preemption-bounded), every schedule executed to completion on the real Traph",
        "states_note": "stateless search: 'states' counts scheduler steps executed (intermediate states visited, not de-duplicated), 'transitions' the same steps, 'traces_validated_against_impl' complete schedules",
        "schedules": total["schedules"],
        "per_combination": per_combo,
        "schedules_meeting_known_finding": total["known_finding_schedules"],
        "combinations_with_more_than_one_page_link_outcome": multi_outcome,
    }
    if multi_outcome and not out.violations:
        out.harness_errors.append("final page/link outcome depends on the schedule in %r although no oracle fired" % (multi_outcome[:2],))
    if not out.violations and per_combo and max(c["distinct_final_byte_images"] for c in per_combo) < 2:
        out.harness_errors.append("vacuous: no combination produced two different final byte images")
    return out


def replay(doc):
    env.load()
    env.patch_always_yield()
    m = menu()
    parts = [m[n] for n in doc["participants"]]
    engine_s.run_schedule.horizon = 2600 if "crawlWide" in doc["participants"] else None
    cfg = Cfg("domain", backend=doc["backend"])
    base = base_history()
    twin = sequential_twin(cfg, base, parts)
    oracle = make_oracle(parts, twin)
    e, choices, points, res = engine_s.evaluate(cfg, base, parts, doc["choices"], oracle, track)
    e.close()
    return res
