"""C20 Most-linked pages are the true top-k by distinct inbound sources."""
import collections
import itertools

from .. import alpha as al
from .. import lru as L
from .. import relational as R
from ..alpha import A, Ax, Axy, Ab, Az, Aw, Awx, S, Sx, Bb, C1
from ..engine_h import HCheck, Space
from ..hcommon import run_hcheck, replay_hcheck
from ..world import Cfg

ID = "C20"
LEVEL = "model_checking"
ASSUMPTIONS = [
    "relational oracle: indegree(p) = number of distinct sources in get_page_links(p), p itself included if it links to itself (tied to the reference model by C03)",
    "'at most k' is read as exactly min(k, eligible pages) entries",
    "eligibility under a depth limit d: the page lies at most d stems below the prefix (among those given) that it resolves to",
    "bounds: histories up to the depth reported per space; k in 1..4 and 10; depth limits None, 0, 1, 2",
]
KNOWN_SIG = "unlinked-page-counted-1"


def judge(answer, eligible, indeg, k):
    """Return None if the answer satisfies every clause of C20 for the indegree function."""
    lrus = [d["lru"] for d in answer]
    if len(set(lrus)) != len(lrus):
        return "a page is listed twice"
    for l in lrus:
        if l not in eligible:
            return "%s is listed but is not an eligible page of the webentity" % L.show(l)
    if len(lrus) != min(k, len(eligible)):
        return "%d entries listed, min(k=%d, %d eligible pages) expected" % (len(lrus), k, len(eligible))
    vals = [d["indegree"] for d in answer]
    for l, v in zip(lrus, vals):
        if v != indeg[l]:
            return "indegree of %s reported as %r, it has %d distinct inbound sources" % (L.show(l), v, indeg[l])
    if any(vals[i] < vals[i + 1] for i in range(len(vals) - 1)):
        return "answer is not in non-increasing order of indegree: %r" % (vals,)
    omitted = [indeg[l] for l in eligible if l not in lrus]
    if omitted and vals and max(omitted) > min(vals):
        return "an omitted page has indegree %d, larger than a listed one (%d)" % (max(omitted), min(vals))
    return None


class Check(HCheck):
    pid = ID
    must_count = ("answers_checked", "ties_present", "self_link_counted", "weight_differs_from_sources", "depth_limit_excludes", "k_truncates")

    def spaces(self, tier):
        thorough = tier == "thorough"
        D1, D2 = Ax + b"p:1|", Ax + b"p:2|"
        LA = A + L.long_stem(149)
        ops = [
            al.page(A),
            al.page(Ab),
            al.page(Axy),
            al.page(Sx),
            al.links((Ab, Ax), (Az, Ax), (Ab, Ax)),  # 2 distinct sources, weight 3
            al.links((Ax, Ax), (Ab, Axy)),  # self link counts
            al.links((A, Ab), (Ax, Ab), (Axy, Ab)),  # indegree 3
            al.links((Bb, Az), (Bb, Axy), (Bb, A)),
            al.links((Sx, D1), (A, D1), (Ab, D2)),
            al.crawl((Az, (Axy, Ab, Sx)),),
            al.create(Ax),
            al.rmprefix(S),
            al.delete(0),
            # a 3-block stem directly below the prefix (first inserted: its short siblings hang
            # below it and are read right after it), and one two levels down
            al.links((LA, Ab), (Ax, LA), (Az, LA)),
            al.links((al.LONGP, Ax), (Ab, al.LONGP)),
        ]
        d = 4 if thorough else 3
        # long inbound chains (one source 70 times; 70 distinct sources), two corpora around
        # clear / reopen, queries in between: every sequence, no merging
        heavy1 = al.links(*([(Ab, Ax)] * 70 + [(Az, Ab), (Axy, Ab), (A, Ab)]))
        # same number and order of links as heavy1 (so that after a clear the lists land on the
        # same blocks) but nine distinct sources instead of one
        heavy2 = al.links(*([(Az + b"p:%d|" % i, Ax) for i in range(70)] + [(Az, Ab), (Axy, Ab), (A, Ab)]))
        life = [heavy1, heavy2, al.links((Ab, Ax), (Az, Axy)), al.OBS, al.clear("domain", {}), al.REOPEN]
        return [
            Space(Cfg("domain"), life, 5 if thorough else 4, name="top/lifecycle", dedup=False),
            Space(Cfg("domain"), ops, d, roots=[al.R0, al.R4], name="top/domain"),
            Space(Cfg("subdomain", {A: "path1"}), ops, d, roots=[al.R0], name="top/subdomain+path1"),
        ]

    def check_state(self, w, ctx):
        t = w.t
        g = R.Ground(w)
        sources = collections.defaultdict(set)
        weight = collections.Counter()
        for (s, tg), wt in g.edges.items():
            sources[tg].add(s)
            weight[tg] += wt
            if s == tg:
                ctx.count("self_link_counted")
        indeg = {p: len(sources[p]) for p, _ in g.pages}
        if any(weight[p] != indeg[p] for p in indeg):
            ctx.count("weight_differs_from_sources")
        indeg_known = {p: (v if v else 1) for p, v in indeg.items()}
        rp = {}
        for p, _ in g.pages:
            try:
                rp[p] = t.retrieve_prefix(p)
            except w.TraphException:
                rp[p] = None
        obs = []
        for wid in g.weids():
            pl = g.prefixes[wid]
            for order in (pl, list(reversed(pl))) if len(pl) > 1 else (pl,):
                for md in (None, 0, 1, 2):
                    eligible = set()
                    for p in g.members.get(wid, []):
                        depth = len(L.stems(p)) - len(L.stems(rp[p]))
                        if md is None or depth <= md:
                            eligible.add(p)
                        else:
                            ctx.count("depth_limit_excludes")
                    vals = sorted(indeg[p] for p in eligible)
                    if len(vals) != len(set(vals)):
                        ctx.count("ties_present")
                    for k in (1, 2, 3, 4, 10):
                        try:
                            ans = t.get_webentity_most_linked_pages(wid, list(order), pages_count=k, max_depth=md)
                        except Exception as e:
                            ctx.fail("query-failed", "most-linked pages of %r failed: %s: %s" % (wid, type(e).__name__, e))
                            return
                        ctx.count("answers_checked")
                        if k < len(eligible):
                            ctx.count("k_truncates")
                        why = judge(ans, eligible, indeg, k)
                        if why is None:
                            continue
                        if judge(ans, eligible, indeg_known, k) is None:
                            ctx.fail("unlinked-page-indegree", "most-linked pages of webentity %r (k=%d, max_depth=%r): %s" % (wid, k, md, why), known=KNOWN_SIG)
                            continue
                        ctx.fail("top-k", "most-linked pages of webentity %r (prefixes %s, k=%d, max_depth=%r) = %s: %s" % (wid, [L.show(p) for p in order], k, md, [(L.show(d["lru"]), d["indegree"]) for d in ans], why))
                        return
            obs.append((wid, sorted(indeg.items())))
        ctx.obs(obs)


CHECK = Check()


# ------------------------------------------------------------------------------ part B
# "every reachable index state" includes states reached while generator requests are advanced
# in turns: a most-linked query is interleaved with a crawl batch (engine S), and once all
# requests have completed the answer of a *fresh* most-linked query on the same object is
# judged against the page links, as in part A.
def _s_participants():
    from ..engine_s import Participant, Query

    P1, P2 = Ab + b"p:1|", Ab + b"p:2|"
    WE1 = [A, S, Aw, S + b"h:www|"]
    crawl1 = Participant("crawl1", lambda t: t.index_batch_crawl_iter({Ab: [P1, Az, Ax], Az: [Ab, P1], P1: [Ab]}, 1))
    crawl2 = Participant("crawl2", lambda t: t.index_batch_crawl_iter({Axy: [Ab, P2], P2: [Ab, Az]}, 1))
    most = Query("most", lambda t: t.get_webentity_most_linked_pages_iter(1, WE1, pages_count=3), lambda t: None, None)
    most.params = (3, None)
    most2 = Query("most2", lambda t: t.get_webentity_most_linked_pages_iter(1, WE1, pages_count=10, max_depth=1), lambda t: None, None)
    most2.params = (10, 1)
    pagesq = Query("pagesq", lambda t: t.get_webentity_pages_iter(2, [Ax]), lambda t: None, None)
    netq = Query("netq", lambda t: t.get_webentities_links_iter(out=True, include_auto=True), lambda t: None, None)
    return {"crawl1": crawl1, "crawl2": crawl2, "most": most, "most2": most2, "pagesq": pagesq, "netq": netq}, WE1


def _s_oracle(WE1):
    def oracle(e):
        out = []
        if e.error:
            return [("request-failed", "request %d failed: %s" % e.error, None)]
        t = e.t
        pages = [lru for _, lru in t.pages_iter()]
        sources = collections.defaultdict(set)
        for p in pages:
            for s_, tg, wt in t.get_page_links(p, include_inbound=False, include_internal=True, include_outbound=True):
                sources[tg].add(s_)
        indeg = {p: len(sources[p]) for p in pages}
        indeg_known = {p: (v if v else 1) for p, v in indeg.items()}
        eligible = set()
        for p in pages:
            try:
                if t.retrieve_webentity(p) == 1:
                    eligible.add(p)
            except e.w.TraphException:
                pass
        for k in (1, 3, 10):
            ans = t.get_webentity_most_linked_pages(1, WE1, pages_count=k)
            why = judge(ans, eligible, indeg, k)
            if why is None:
                continue
            if judge(ans, eligible, indeg_known, k) is None:
                out.append(("unlinked-page-indegree", "after the interleaving, most-linked pages (k=%d): %s" % (k, why), KNOWN_SIG))
                continue
            out.append(("top-k-after-interleaving", "after all requests completed, most-linked pages of webentity 1 (k=%d) = %s: %s" % (k, [(L.show(d["lru"]), d["indegree"]) for d in ans], why), None))
            break
        # no writer among the participants: the index never changed, so the answer of the
        # interleaved most-linked query itself must be a true top-k
        if all(p.is_query for p in e.parts):
            rp = {}
            for p in eligible:
                try:
                    rp[p] = t.retrieve_prefix(p)
                except e.w.TraphException:
                    rp[p] = None
            for qi, p in enumerate(e.parts):
                if not hasattr(p, "params"):
                    continue
                k, md = p.params
                el = {x for x in eligible if md is None or (rp[x] and len(L.stems(x)) - len(L.stems(rp[x])) <= md)}
                ans = e.res[qi]
                why = judge(ans, el, indeg, k)
                if why is not None and judge(ans, el, indeg_known, k) is not None:
                    out.append(("top-k-interleaved-read-only", "most-linked query %s advanced in turns with other read-only requests answered %s: %s" % (p.name, [(L.show(d["lru"]), d["indegree"]) for d in ans], why), None))
                elif why is not None:
                    out.append(("unlinked-page-indegree", "interleaved most-linked (k=%d): %s" % (k, why), KNOWN_SIG))
        e.outcome = tuple(sorted(indeg.items()))
        return out

    return oracle


# (participants, preemption bound quick, thorough); None = unbounded
S_COMBOS = [(("crawl1", "most"), 3, None), (("crawl2", "most2"), None, None), (("crawl1", "crawl2", "most"), 2, 3), (("most", "pagesq"), None, None), (("most", "netq"), 3, None), (("most", "most2"), 3, None)]


def _s_work(args):
    from .. import engine_s, env

    names, bound, backend = args
    env.load()
    env.patch_always_yield()
    parts_, WE1 = _s_participants()
    parts = [parts_[n] for n in names]
    for q in parts:
        if q.is_query:
            q.atomic = lambda t: None
    try:
        stats, viols, known = engine_s.explore(Cfg("domain", backend=backend), al.R2, parts, bound, _s_oracle(WE1), track=None, stop_on_violation=False)
        return args, stats, viols[:5], known, None
    except Exception:
        import traceback

        return args, None, None, None, traceback.format_exc()[-800:]


def run(tier, seed, log=print):
    import multiprocessing

    out = run_hcheck(CHECK, tier, seed, log)
    if out.violations:
        return out
    tasks = [(names, (bq if tier == "quick" else bt), backend) for names, bq, bt in S_COMBOS for backend in ("file", "memory")]
    total = collections.Counter()
    with multiprocessing.get_context("fork").Pool(6) as pool:
        for args, stats, viols, known, err in pool.imap_unordered(_s_work, tasks):
            if err:
                out.harness_errors.append("part B (engine S): " + err)
                continue
            total["schedules"] += stats["schedules"]
            total["steps"] += stats["steps"]
            for sig, (msg, choices, trace) in known.items():
                out.known.setdefault(sig, (msg, {"engine": "S", "oracle": "unlinked-page-indegree", "tier": tier, "names": list(args[0]), "backend": args[2], "choices": choices}))
            for v in viols[:1]:
                out.violations.append({"oracle": v["oracle"], "message": v["message"] + "   [%s back-end; participants %s; schedule %s]" % (args[2], "+".join(args[0]), "".join(map(str, v["trace"]))), "replay": {"engine": "S", "tier": tier, "names": list(args[0]), "backend": args[2], "choices": v["choices"]}})
    log("  [S] most-linked after interleavings: schedules=%d steps=%d violations=%d" % (total["schedules"], total["steps"], len(out.violations)))
    out.coverage["interleaved_schedules_then_most_linked_judged"] = total["schedules"]
    out.coverage["traces_validated_against_impl"] += total["schedules"]
    out.coverage["engine"] += " | S: crawl batches interleaved with most-linked queries, answer judged after completion"
    return out


def replay(doc):
    if doc.get("engine") == "S":
        from .. import engine_s, env

        env.load()
        env.patch_always_yield()
        parts_, WE1 = _s_participants()
        parts = [parts_[n] for n in doc["names"]]
        for q in parts:
            if q.is_query:
                q.atomic = lambda t: None
        e, choices, points = engine_s.run_schedule(Cfg("domain", backend=doc["backend"]), al.R2, parts, doc["choices"])
        try:
            return _s_oracle(WE1)(e)
        finally:
            e.close()
    return replay_hcheck(CHECK, doc)
