"""C02 Stored LRUs stay findable and read back byte-identical, any stem length."""
from .. import alpha as al
from .. import lru as L
from .. import rawdec
from ..alpha import A, Ax, Axy, Ab, Az, Aw, Sx, Bb, C1
from ..engine_h import HCheck, Space
from ..hcommon import run_hcheck, replay_hcheck
from ..world import Cfg

ID = "C02"
LEVEL = "model_checking"
ASSUMPTIONS = [
    "bounds: histories up to the depth reported per space; stem lengths 1..223 bytes around the 74-byte payload multiples; fill bytes a, 0x00, '{', '}', 0x80, 0xFF",
    "trusted base: CPython, tmpfs file semantics, the independent raw decoder mc/rawdec.py",
    "'named' includes prefixes a write report says were created (scheme/www variations)",
]


def near_probes(lru):
    """Probes that differ from a stored LRU around its last stem (may or may not be stored)."""
    st = L.stems(lru)
    if not st:
        return []
    head = b"".join(st[:-1])
    s = st[-1]
    body = s[:-1]
    out = []
    if len(body) > 2:
        out.append(head + body[:-1] + b"|")  # one byte shorter
        last = body[-1]
        out.append(head + body[:-1] + bytes([last ^ 1 if (last ^ 1) != 0x7C else last ^ 2]) + b"|")  # last byte changed
    out.append(head + body + b"a|")  # one byte longer
    if len(s) > 74:
        out.append(head + s[:73] + b"|")  # the head chunk only
        out.append(head + s[:74] + b"|")
        out.append(head + body[:74] + b"|")
    if len(s) > 148:
        out.append(head + s[:147] + b"|")
        out.append(head + s[:148] + b"|")
    return out


class Check(HCheck):
    pid = ID
    owned = ("page", "pages", "links", "crawl", "create", "addprefix", "rmprefix", "rule", "clear", "reopen")
    must_count = ("located_multiblock", "probe_absent", "probe_present", "raw_decoded_with_tails")

    def spaces(self, tier):
        thorough = tier == "thorough"
        # one level of long stems under A, a second level under the 75- and 148-byte ones
        lens1 = (75, 148, 149, 74, 3) if not thorough else (75, 148, 149, 74, 3, 223, 76)
        l1 = al.long_lrus(lens1)
        l2 = [l1[0] + L.long_stem(75, b"a"), l1[1] + L.long_stem(149, b"\xff"), l1[0] + L.long_stem(74, b"{")]
        ops = [al.page(u, i % 2 == 0) for i, u in enumerate(l1)]
        ops += [al.page(l1[0] + b"p:c|q:d|"), al.page(l2[0]), al.page(l2[1], True), al.create(l2[2]), al.addprefix(l1[1], 0), al.rule(l1[0], "path2"), al.links((l1[2], l2[0]), (l2[0], l1[2]))]
        sp = [Space(Cfg("never"), ops, 5 if thorough else 4, name="long/two-levels")]
        # byte alphabet: stems that differ only beyond the first block / in high and low bytes
        lb = [A + L.long_stem(n, f) for n, f in ((75, b"\xff"), (75, b"\x00"), (75, b"{"), (75, b"}"), (75, b"\x80"), (149, b"\x80"), (148, b"{"))]
        # three-block stems filled with bytes a lazy decoder might strip (NUL padding, whitespace)
        lb += [A + L.long_stem(n, f) for n, f in ((149, b"\x00"), (223, b"\x00"), (223, b" "), (149, b"\n"))]
        lb.append(A + b"p:" + b"a" * 72 + b"\xff" * 3 + b"|")  # shares the 74-byte head with the 'a' family
        lb.append(A + b"p:" + b"a" * 72 + b"\x00" * 3 + b"|")
        sp.append(Space(Cfg("never"), [al.page(u, i % 2 == 0) for i, u in enumerate(lb if thorough else lb[:11])], 5 if thorough else 3, name="long/bytes"))
        # all insertion orders of sibling stems sharing one 74-byte head (BST shapes decided in the tail)
        sib = al.long_lrus((75, 76, 148, 149, 150, 223) if thorough else (75, 76, 148, 149, 223))
        sp.append(Space(Cfg("never"), [al.page(u) for u in sib], 6 if thorough else 5, name="long/orders"))
        # b"|" alone is the empty stem (zero non-separator bytes, closed by the separator)
        odd = [A + x for x in (b"\x00|", b"\xff\xfe|", b"p|", b"{|", b"|", b"||p:k|", b"}|", b"p:x\x00|", b"p:x|", b"p:xx|")]
        sp.append(Space(Cfg("never"), [al.page(u) for u in (odd if thorough else odd[:8])] + [al.links((odd[0], odd[1] + b"\x80|"))], 5 if thorough else 4, name="short/bytes"))
        # long stems of equal length but different tails, around clear / reopen (block offsets are
        # handed out again after a clear): every sequence, no merging
        la, lb, lc = A + L.long_stem(75, b"a"), A + L.long_stem(75, b"b"), A + L.long_stem(149, b"c")
        life = [al.page(la), al.page(lb, True), al.page(lc), al.links((lb, la)), al.OBS, al.clear("never", {}), al.REOPEN]
        sp.append(Space(Cfg("never"), life, 5 if thorough else 4, name="lifecycle/long", dedup=False))
        # very long stems (tails of 9, 29 and 54 blocks): reading in runs, caps on tail length
        vl = [A + L.long_stem(n, f) for n, f in ((700, b"a"), (2200, b"a"), (2200, b"b"), (4000, b"c"), (20000, b"d"))]
        sp.append(Space(Cfg("never"), [al.page(u, i % 2 == 0) for i, u in enumerate(vl)] + [al.page(vl[0] + b"p:k|"), al.create(vl[1]), al.REOPEN], 4 if thorough else 3, name="long/very-long"))
        allb = [A + b"p:" + bytes([b]) + b"|" for b in range(256) if b != 0x7C] + [A + L.long_stem(75, b"a")[:-2] + bytes([b]) + b"|" for b in range(256) if b != 0x7C]
        sp.append(Space(Cfg("never"), [al.page(u) for u in allb], 1, roots=[al.R0, (al.page(A + b"p:\x40|"), al.page(A + L.long_stem(75, b"a")))], name="bytes/all-values"))
        shapes = al.shape_lrus(3)
        prep = [al.R0, (al.page(A + L.long_stem(75, b"a")),), (al.page(A + L.long_stem(149, b"a") + b"p:k|"),)]
        sp.append(Space(Cfg("never"), [al.page(u, i % 2 == 0) for i, u in enumerate(shapes)], 1, roots=prep, name="shapes/one-insertion"))
        # U-core with webentity prefixes and rule anchors (automatic variations become locatable)
        cops = [al.page(A + b"p:a|"), al.page(Axy + b"p:q|"), al.page(Ax), al.page(Axy, True), al.page(Ab), al.page(Aw), al.page(Sx), al.page(Bb), al.create(C1), al.addprefix(Az, 0), al.rmprefix(A + b"p:q|"), al.rule(Ax, "path2"), al.links((Az, Bb)), al.move(Ab, 0)]
        sp.append(Space(Cfg("domain"), cops, 4 if thorough else 3, name="core/domain"))
        return sp

    def check_state(self, w, ctx):
        t, m = w.t, w.m
        trie = t.lru_trie
        clo = m.closure()
        probes = set(clo)
        for l in m.named:
            probes.update(near_probes(l))
        probes.update(L.ABSENT)
        for l in sorted(probes):
            try:
                n = trie.lru_node(l)
            except Exception as e:
                ctx.fail("lookup-failed", "top-down lookup of %s failed with %s: %s" % (L.show(l), type(e).__name__, e))
                return
            present = l in clo
            ctx.count("probe_present" if present else "probe_absent")
            # the second copy of the top-down search (the one resolution uses) must agree
            try:
                n2 = trie.follow_lru(l)[0]
            except AttributeError:
                n2 = n
            except Exception as e:
                ctx.fail("lookup-failed", "top-down walk of %s failed with %s: %s" % (L.show(l), type(e).__name__, e))
                return
            if (n2 is not None) != (n is not None) or (n is not None and n2.block != n.block):
                ctx.fail("lookups-disagree", "the two top-down lookups disagree on %s (%s vs %s)" % (L.show(l), "found" if n is not None else "not found", "found" if n2 is not None else "not found"))
                return
            if (n is not None) != present:
                ctx.fail("locatable-iff-named", "%s is %s although it is %s of a named LRU" % (L.show(l), "found" if n is not None else "not found", "a stem-prefix" if present else "no stem-prefix"))
                return
            if n is not None:
                if len(L.stems(l)[-1]) > 74:
                    ctx.count("located_multiblock")
                back = trie.windup_lru(n.block)
                if back != l:
                    ctx.fail("bottom-up-differs", "bottom-up reconstruction of %s gives %s" % (L.show(l), L.show(back)))
                    return
        dfs = sorted(lru for _, lru in trie.dfs_iter())
        ctx.obs(dfs)
        if dfs != sorted(clo):
            missing = sorted(clo - set(dfs))
            extra = [x for x in dfs if x not in clo]
            dup = len(dfs) - len(set(dfs))
            ctx.fail("traversal-differs", "full traversal differs from the named stem-prefixes: missing %s, extra %s, duplicates %d" % ([L.show(x) for x in missing[:4]], [L.show(x) for x in extra[:4]], dup))
        # traversal restricted to the sub-tree of a located entry (the walk every webentity query
        # starts with): exactly the named stem-prefixes that extend it, byte for byte
        starts = sorted(clo) if len(clo) <= 24 else sorted(set(m.named) | set(m.prefix))
        for l in starts:
            n = trie.lru_node(l)
            if n is None:
                continue
            try:
                sub = sorted(lru for _, lru in trie.dfs_iter(n, l))
            except Exception as e:
                ctx.fail("subtree-traversal-failed", "traversal below %s failed with %s: %s" % (L.show(l), type(e).__name__, e))
                return
            ctx.count("subtree_traversals")
            exp = sorted(c for c in clo if c.startswith(l))
            if sub != exp:
                ctx.fail("subtree-traversal-differs", "traversal below %s yields %s; the named stem-prefixes extending it are %s" % (L.show(l), [L.show(x) for x in sub[:5]], [L.show(x) for x in exp[:5]]))
                return
        for p, wid in m.prefix.items():
            try:
                g = t.get_webentity_by_prefix(p)
            except Exception as e:
                g = "%s" % type(e).__name__
            if g != wid:
                ctx.fail("prefix-lookup", "webentity of prefix %s is %r, expected %r" % (L.show(p), g, wid))
        # raw structure (C02's quantifier)
        a, _ = w.store_bytes()
        tri = rawdec.check_trie(a)
        if tri.ntails:
            ctx.count("raw_decoded_with_tails")
        if tri.errors:
            ctx.fail("raw-structure", tri.errors[0])
        elif set(tri.by_lru) != clo:
            ctx.fail("raw-stems", "stems reassembled from the raw blocks differ from the named stem-prefixes")


CHECK = Check()


def run(tier, seed, log=print):
    return run_hcheck(CHECK, tier, seed, log)


def replay(doc):
    return replay_hcheck(CHECK, doc)
