"""C13 Webentity hierarchy queries are exact; pruning never hides a child."""
import itertools

from .. import alpha as al
from .. import lru as L
from .. import relational as R
from ..alpha import A, Ax, Axy, Ab, Az, Aw, Awx, S, Sx, Bb, C1
from ..engine_h import HCheck, Space
from ..hcommon import run_hcheck, replay_hcheck
from ..world import Cfg

ID = "C13"
LEVEL = "model_checking"
ASSUMPTIONS = [
    "relational oracle: ground truth = webentity_prefix_iter of the same state (tied to the reference model by C04)",
    "bounds: histories up to the depth reported per space; pages are inserted first (unmarked paths), prefixes attached by every route in every order",
]


class Check(HCheck):
    pid = ID
    must_count = ("has_parent", "has_child", "child_depth_ge2", "child_attached_after_pages")

    def spaces(self, tier):
        thorough = tier == "thorough"
        LA = A + L.long_stem(75)
        ops = [
            al.page(Axy),
            al.page(Awx),
            al.page(Sx),
            al.create(C1),
            al.create(A),
            al.create(Ax),
            al.create(Axy),
            al.addprefix(Axy, 0),
            al.addprefix(Ax, 1),
            al.move(Axy, 0),
            al.move(A, 1),
            al.rmprefix(Ax),
            al.delete(0),
            al.rule(A, "path1"),
            al.rule(Ax, "path2"),
            al.create(al.SH),  # a one-stem prefix: its node is the very first block of the trie
            al.create(S),  # a webentity that exists under the other scheme only
        ]
        # a space of its own (small alphabet, same depth):
        # an ancestor with a multi-block stem that exists (unmarked) before a prefix is attached
        # below it; a newline byte inside a prefix stem, and a prefix running through the stem
        # that follows it
        lops = [
            al.create(C1),
            al.create(A),
            al.page(LA + b"p:k|"),
            al.create(LA + b"p:k|"),
            al.create(LA),
            al.addprefix(LA + b"p:k|p:m|", 0),
            al.create(A + b"p:a\nb|"),
            al.create(A + b"b|p:deep|"),
            al.rmprefix(LA),
            al.delete(0),
            al.move(LA + b"p:k|", 0),
        ]
        sp = [Space(Cfg("never"), ops, 5 if thorough else 4, roots=[al.R0, (al.page(Axy), al.page(Awx), al.page(A + b"p:x|p:y|p:z|"))], name="hier/never")]
        sp.append(Space(Cfg("never"), lops, 5 if thorough else 4, name="hier/long-stems+newline"))
        ops2 = [
            al.page(Axy),
            al.page(Awx),
            al.page(Ax + b"p:y|p:z|"),
            al.page(Bb),
            al.create(C1),
            al.create(Axy),
            al.addprefix(Ax, 0),
            al.move(Aw, 1),
            al.rmprefix(A),
            al.delete(0),
            al.rule(A, "path1"),
            al.rule(Ax, "path2"),
            al.unrule(A),
        ]
        sp.append(Space(Cfg("domain", {Ax: "path3"}), ops2, 5 if thorough else 4, roots=[al.R0, al.R1], name="hier/domain+path3"))
        # hierarchy queries around clear / reopen: two corpora, queries in between, every sequence
        sp.append(Space(Cfg("domain"), R.lifecycle_ops() + [al.create(Axy), al.rule(A, "path1")], 5 if thorough else 4, roots=[al.R0], name="hier/lifecycle", dedup=False))
        return sp

    def check_state(self, w, ctx):
        t = w.t
        g = R.Ground(w)
        obs = []
        nstems = lambda l: len(L.stems(l))  # noqa: E731
        # anchored outside the trie walks: the attached prefixes are those of the net edits
        if dict(g.owner) != dict(w.m.prefix):
            ctx.fail("prefix-map-vs-edits", "attached prefixes %s differ from the net effect of the edits {%s}" % (_own(g), ", ".join("%s: %s" % (L.show(p), x) for p, x in sorted(w.m.prefix.items()))))
            return
        for wid in g.weids():
            pl = g.prefixes[wid]
            par, chi = set(), set()
            for p in pl:
                for q, w2 in g.owner.items():
                    if w2 == wid or p == q:
                        continue
                    if L.is_stem_prefix(q, p):
                        par.add(w2)
                    if L.is_stem_prefix(p, q):
                        chi.add(w2)
                        if nstems(q) - nstems(p) >= 2:
                            ctx.count("child_depth_ge2")
            if par:
                ctx.count("has_parent")
            if chi:
                ctx.count("has_child")
                if w.m.pages:
                    ctx.count("child_attached_after_pages")
            for order in al.orders(pl):
                try:
                    gp = t.get_webentity_parent_webentities(wid, order)
                    gc = t.get_webentity_child_webentities(wid, order)
                except Exception as e:
                    ctx.fail("query-failed", "hierarchy query on webentity %r failed: %s: %s" % (wid, type(e).__name__, e))
                    return
                if len(set(gp)) != len(gp) or set(gp) != par:
                    ctx.fail("parents", "parents of webentity %r (prefixes %s): %r, expected %r; attached prefixes: %s" % (wid, _pl(order), sorted(gp), sorted(par), _own(g)))
                    return
                if len(set(gc)) != len(gc) or set(gc) != chi:
                    ctx.fail("children", "children of webentity %r (prefixes %s): %r, expected %r; attached prefixes: %s" % (wid, _pl(order), sorted(gc), sorted(chi), _own(g)))
                    return
            obs.append((wid, sorted(par), sorted(chi)))
        ctx.obs(obs)


def _pl(order):
    return "[" + ", ".join(L.show(p) for p in order) + "]"


def _own(g):
    return "{" + ", ".join("%s: %s" % (L.show(p), w) for p, w in sorted(g.owner.items())) + "}"


CHECK = Check()


def run(tier, seed, log=print):
    return run_hcheck(CHECK, tier, seed, log)


def replay(doc):
    return replay_hcheck(CHECK, doc)
