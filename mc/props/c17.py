"""C17 Prefix variations form closed classes and are attached as a whole."""
import collections
import itertools
import multiprocessing
import os
import random
import time

from .. import codec, env
from .. import lru as L
from ..run import Outcome
from ..world import Cfg, World

ID = "C17"
LEVEL = "model_checking"
ASSUMPTIONS = [
    "engine E: every word of the bounded grammar scheme{http,https,ftp} . port?{-, t:80} . hosts{com,a,www,www2,WWW,wh}^0..3 not ending in two www . up to 2 (thorough 3) tail stems from {p:x, p:s:http, p:s:https, p:h:www, q:h:com, f:www} is expanded; the 'is a variation of' graph is closed under expansion (every member of every result is expanded too)",
    "'changes nothing but the scheme stem and a trailing www host stem' is checked on stems: same port and tail stems, hosts equal up to one trailing h:www, scheme equal or http<->https",
    "non-vacuity: the scheme-flipped LRU must be listed whenever the scheme is http(s)",
    "second part: for every class, a page of each member is inserted first on a fresh index (default rule: subdomain) and the created prefix sets are compared",
]
SCHEMES = [b"s:http|", b"s:https|", b"s:ftp|"]
PORTS = [b"", b"t:80|"]
HOSTS = [b"h:com|", b"h:a|", b"h:www|", b"h:www2|", b"h:WWW|", b"h:wh|"]  # wh: ends in characters of "h:www|"  # www2: a host that merely starts with "www"
TAILS = [b"p:x|", b"p:s:http|", b"p:s:https|", b"p:h:www|", b"q:h:com|", b"f:www|"]


def grammar(max_tails):
    for sc in SCHEMES:
        for port in PORTS:
            for nh in range(0, 4):
                for hs in itertools.product(HOSTS, repeat=nh):
                    if nh >= 2 and hs[-1].lower() == b"h:www|" and hs[-2].lower() == b"h:www|":
                        continue
                    for nt in range(0, max_tails + 1):
                        for ts in itertools.product(TAILS, repeat=nt):
                            yield sc + port + b"".join(hs) + b"".join(ts)


def split(lru):
    st = L.stems(lru)
    sc = st[0]
    i = 1
    port = b""
    if i < len(st) and st[i].startswith(b"t:"):
        port = st[i]
        i += 1
    j = i
    while j < len(st) and st[j].startswith(b"h:"):
        j += 1
    return sc, port, st[i:j], st[j:]


def only_scheme_and_www(a, b):
    """b differs from a only in the scheme stem (http<->https) and/or one trailing h:www host."""
    sa, pa, ha, ta = split(a)
    sb, pb, hb, tb = split(b)
    if pa != pb or ta != tb:
        return False
    if sa != sb and {sa, sb} != {b"s:http|", b"s:https|"}:
        return False
    if ha == hb:
        return True
    if ha + [b"h:www|"] == hb or hb + [b"h:www|"] == ha:
        return True
    return False


def check_word(th, lru):
    """Expand one LRU; returns (violations, members)."""
    v = []
    try:
        raw = th.lru_variations(lru)
        res = raw
    except Exception as e:
        return [("expansion-failed", "expanding %s failed: %s: %s" % (L.show(lru), type(e).__name__, e))], []
    # what a caller does with the returned list must not matter: reverse it, drop an entry,
    # and expand again
    snapshot = list(res)
    try:
        raw.reverse()  # the very object the helper returned
        raw.pop()
    except Exception:
        pass
    try:
        again = list(th.lru_variations(lru))
    except Exception as e:
        return [("expansion-failed", "expanding %s a second time failed: %s: %s" % (L.show(lru), type(e).__name__, e))], []
    res = snapshot
    if again != snapshot:
        v.append(("result-aliased", "expanding %s again after the caller modified the first result gives %s instead of %s" % (L.show(lru), [L.show(x) for x in again], [L.show(x) for x in snapshot])))
    if not res or res[0] != lru:
        v.append(("self-not-first", "expanding %s does not list it first: %s" % (L.show(lru), [L.show(x) for x in res])))
    if len(set(res)) != len(res):
        v.append(("duplicate-entry", "expanding %s lists an entry twice: %s" % (L.show(lru), [L.show(x) for x in res])))
    for m in res:
        if not only_scheme_and_www(lru, m):
            v.append(("foreign-change", "expanding %s yields %s, which differs in more than the scheme stem and a trailing www host stem" % (L.show(lru), L.show(m))))
            break
    sc = L.stems(lru)[0]
    if sc in (b"s:http|", b"s:https|"):
        flipped = (b"s:https|" if sc == b"s:http|" else b"s:http|") + lru[len(sc) :]
        if flipped not in res:
            v.append(("scheme-variation-missing", "expanding %s does not list its scheme variation %s" % (L.show(lru), L.show(flipped))))
    return v, res


def run(tier, seed, log=print):
    ns = env.load()
    th = ns["th"]
    t0 = time.time()
    out = Outcome()
    max_tails = 3 if tier == "thorough" else 2
    words = list(grammar(max_tails))
    nodes = {}
    edges = 0
    queue = collections.deque(words)
    grammar_words = len(words)
    viol = collections.OrderedDict()
    while queue:
        lru = queue.popleft()
        if lru in nodes:
            continue
        v, res = check_word(th, lru)
        nodes[lru] = frozenset(res)
        edges += len(res)
        for tag, msg in v:
            viol.setdefault(tag, (msg, lru))
        for m in res:
            if m not in nodes:
                queue.append(m)
    # closure: expanding any member gives the same set
    closure_checked = 0
    classes = set()
    for lru, cls in nodes.items():
        if not cls:
            continue
        classes.add(cls)
        for m in cls:
            closure_checked += 1
            if nodes.get(m) != cls:
                viol.setdefault("class-not-closed", ("expanding %s gives %s but expanding its member %s gives %s" % (L.show(lru), sorted(L.show(x) for x in cls), L.show(m), sorted(L.show(x) for x in nodes.get(m, []))), lru))
                break
    multi = [c for c in classes if len(c) > 1]
    log("  [E] grammar words=%d graph nodes=%d edges=%d classes=%d (with >1 member: %d) violations=%d t=%.1fs" % (grammar_words, len(nodes), edges, len(classes), len(multi), len(viol), time.time() - t0))
    # through Traph: whichever variation is seen first, the same prefixes get attached
    attach_cmp = 0
    if not viol:
        env.scratch_root()
        work = sorted(multi, key=lambda c: sorted(c))
        with multiprocessing.get_context("fork").Pool(min(16, os.cpu_count() or 1)) as pool:
            for cls, bad in pool.imap(_attach, work, chunksize=32):
                attach_cmp += len(cls)
                if bad:
                    viol.setdefault("attached-set-depends-on-first-seen", (bad, sorted(cls)[0]))
                    break
        log("  [E] classes inserted through Traph: %d member insertions compared, t=%.1fs" % (attach_cmp, time.time() - t0))
    for tag, (msg, lru) in viol.items():
        out.violations.append({"oracle": tag, "message": msg, "replay": {"engine": "E", "tier": tier, "lru": codec.enc(lru)}})
    rng = random.Random(seed)
    sample_words = rng.sample(words, 4)
    out.coverage = {
        "states": len(nodes),
        "transitions": max(edges, 1),
        "traces_validated_against_impl": len(nodes) + attach_cmp,
        "samples": [{"lru": L.show(x), "variations": [L.show(y) for y in sorted(nodes.get(x, []))]} for x in sample_words],
        "exhaustive": not viol,
        "engine": "E: every word of the bounded grammar + closure of the 'is a variation of' graph (states = LRUs, transitions = variation edges), then one fresh index per class member",
        "grammar_words": grammar_words,
        "distinct_classes": len(classes),
        "classes_with_several_members": len(multi),
        "closure_checks": closure_checked,
        "member_first_insertions_compared": attach_cmp,
        "how_model_traces_are_validated": "no separate model: every node of the graph is an expansion executed by the real lru_variations; every class member is inserted into a real Traph",
    }
    if not viol and (len(multi) < 10 or not attach_cmp):
        out.harness_errors.append("vacuous: fewer than 10 classes with several members")
    return out


def _attach(cls):
    """Insert a page of each member first on a fresh index; the created prefix sets must agree."""
    env.reset_process_state()
    seen = {}
    for m in sorted(cls):
        w = World(Cfg("subdomain", backend="memory"))
        try:
            tr = w.apply(("page", m + b"p:zz|", False))
            if tr.exc is not None:
                return cls, "inserting a page under %s failed: %s" % (L.show(m), tr.exc)
            created = frozenset(p for pl in (tr.created or {}).values() for p in pl)
            seen[m] = created
        finally:
            w.close()
    # a class partly owned already: the rest is attached, and expanding again afterwards (in
    # the same process, on the same object) still gives the same class
    members = sorted(cls)
    mm = L.rule_re("subdomain").search(members[0] + b"p:zz|") if members else None
    if len(members) >= 2 and mm is not None and mm.group() == members[0]:
        th = env.load()["th"]
        before = {m: list(th.lru_variations(m)) for m in members}
        w = World(Cfg("subdomain", backend="memory"))
        try:
            tr0 = w.apply(("create", (members[-1],)))
            tr = w.apply(("page", members[0] + b"p:zz|", False))
            if tr0.exc is None and tr.exc is None:
                created = frozenset(p for pl in (tr.created or {}).values() for p in pl)
                if created != frozenset(members[:-1]):
                    return cls, "with %s already owned, a page under %s attached {%s}; the rest of its class is {%s}" % (L.show(members[-1]), L.show(members[0]), ", ".join(sorted(L.show(p) for p in created)), ", ".join(L.show(p) for p in members[:-1]))
            for m in members:
                again = list(w.t.expand_prefix(m))
                if again != before[m]:
                    return cls, "expanding %s again after a creation gives %s, before it gave %s" % (L.show(m), [L.show(x) for x in again], [L.show(x) for x in before[m]])
        finally:
            w.close()
    vals = set(seen.values())
    if len(vals) > 1:
        items = sorted(seen.items())
        return cls, "the automatically created webentity depends on which variation is seen first: %s" % "; ".join("%s -> {%s}" % (L.show(m), ", ".join(sorted(L.show(p) for p in c))) for m, c in items[:4])
    return cls, None


def replay(doc):
    ns = env.load()
    th = ns["th"]
    lru = codec.dec(doc["lru"])
    v, res = check_word(th, lru)
    out = [(tag, msg, None) for tag, msg in v]
    cls = frozenset(res)
    for m in res:
        try:
            r2 = frozenset(th.lru_variations(m))
        except Exception as e:
            out.append(("expansion-failed", "expanding %s failed: %s" % (L.show(m), e), None))
            continue
        if r2 != cls:
            out.append(("class-not-closed", "expanding %s gives %s but expanding its member %s gives %s" % (L.show(lru), sorted(L.show(x) for x in cls), L.show(m), sorted(L.show(x) for x in r2)), None))
            break
    if len(cls) > 1:
        _, bad = _attach(cls)
        if bad:
            out.append(("attached-set-depends-on-first-seen", bad, None))
    return out
