"""C15 In-memory and on-disk indexes are observationally equivalent."""
from .. import alpha as al
from .. import lru as L
from .. import observe
from ..alpha import A, Ax, Axy, Ab, Az, Aw, Awx, S, Sx, Bb, C1
from ..engine_h import HCheck, Space
from ..hcommon import run_hcheck, replay_hcheck
from ..world import Cfg, World, Disabled
from .c11 import first_diff

ID = "C15"
LEVEL = "model_checking"
ASSUMPTIONS = [
    "twin oracle: the same history runs on Traph(folder=None, ...) and on Traph(folder=<fresh tmpfs folder>, ...) built with identical arguments",
    "the memory-mapped reader is taken right after each request, with no intervening call that happens to flush, and read in full before the file object is touched again; the reader of the first request is released at once, those of the middle requests are still open when the next one is taken (a caller keeping a reader across requests)",
    "bounds: histories up to the depth reported per space, including multi-block stems and constructor-supplied rules; constructor flag overwrite in {False, True}",
]


class Check(HCheck):
    pid = ID
    owned = ()
    must_count = ("states_compared", "mapped_blocks_compared", "multiblock_state", "constructor_rule_applied")

    def spaces(self, tier):
        thorough = tier == "thorough"
        l1, l2, l3 = A + L.long_stem(75), A + L.long_stem(149, b"\xff"), Ax + L.long_stem(148)
        ops = [
            al.page(Ax, True),
            al.page(Axy),
            al.page(Sx),
            al.page(l1),
            al.page(l2, True),
            al.pages((Ab, l3)),
            al.links((Ax, Ab), (Ab, Ax), (Ax, Ab), (l1, Ax)),
            al.crawl((Axy, (Ax, Axy, Bb)), (Bb, ())),
            al.create(Ax),
            al.delete(0),
            al.addprefix(Az, 0),
            al.rmprefix(Aw),
            al.rule(Ax, "path2"),
            al.clear("domain", {Ax: "path1"}),
            al.unrule(Ax),
            al.unrule(A),
        ]
        d = 4 if thorough else 3
        sp = []
        for ow in (False, True):
            sp.append(Space(Cfg("domain", {A: "path1"}, overwrite=ow), ops, d, name="twin/domain+path1/overwrite=%s" % ow))
        sp.append(Space(Cfg("never"), ops[:-1], d, name="twin/never"))
        huge = [A + L.long_stem(n, f) for n, f in ((700, b"a"), (4000, b"b"), (20000, b"c"))]
        sp.append(Space(Cfg("never"), [al.page(u, i % 2 == 0) for i, u in enumerate(huge)] + [al.page(huge[2] + b"p:k|"), al.links((huge[0], huge[2]))], 3, name="twin/very-long-stems"))
        sp.append(Space(Cfg("subdomain", {A: "path2", Ax: "path1"}), ops, d, roots=[al.R1], name="twin/subdomain+2rules"))
        return sp

    def make_world(self, cfg, hist):
        F = World(cfg)
        mcfg = Cfg(cfg.default, cfg.rules, "memory", cfg.overwrite)
        M = World(mcfg)
        F.companions = [M]
        F.pair = None
        F.mapped = None
        tr = None
        held = []

        def take_maps(hold=False):
            # hold=True: the maps of this step stay open until the next step has taken and read its
            # own (a caller that keeps a reader across requests); hold=False: released at once
            try:
                got = []
                mine = []
                for st in (F.t.lru_trie_storage, F.t.links_store_storage):
                    mm = st.map()
                    mine.append(mm)
                    blocks = []
                    off = 0
                    while True:
                        b = mm.read(off)
                        if not b:
                            break
                        blocks.append(bytes(b))
                        off += st.block_size
                    got.append(b"".join(blocks))
                for mm in held:
                    if all(mm is not x for x in mine):
                        mm.release()
                del held[:]
                if hold:
                    held.extend(mine)
                else:
                    for mm in mine:
                        mm.release()
                return got
            except Exception as e:
                return "%s: %s" % (type(e).__name__, e)

        try:
            for i, op in enumerate(hist):
                tr = F.apply(op)
                trM = M.apply(op)
                if i == len(hist) - 1:
                    F.pair = (tr, trM)
                # memory-mapped reader: taken right after EVERY request (so that a history holds
                # several maps with only in-place rewrites between two of them)
                F.mapped = take_maps(hold=0 < i < len(hist) - 1)
        except Disabled:
            F.close()
            return None, None
        if not hist:
            F.mapped = take_maps()
        F.mem = M
        # lock-step loss on either side is C15's own business (identical answers), not a skip
        F.broken = None
        return F, tr

    def failure_policy(self, w, tr, ctx):
        pass

    def check_trans(self, w, tr, ctx):
        if not w.pair:
            return
        a, b = w.pair
        if (a.exc, a.nb_created_pages, a.created) != (b.exc, b.nb_created_pages, b.created):
            ctx.fail("answers-differ", "request %s: on disk (%r, %r, %r), in memory (%r, %r, %r)" % (_op(tr.op), a.exc, a.nb_created_pages, a.created, b.exc, b.nb_created_pages, b.created))
        if tr.pred_created and w.cfg.rules and any(len(pl) and pl[0].count(b"|") > 3 for pl in tr.pred_created):
            ctx.count("constructor_rule_applied")

    def check_state(self, w, ctx):
        M = w.mem
        ctx.count("states_compared")
        fb, mb = w.store_bytes(), M.store_bytes()
        if any(len(L.stems(l)[-1]) > 74 for l in w.m.named):
            ctx.count("multiblock_state")
        if fb != mb:
            ctx.fail("store-contents", "store contents differ between the on-disk and the in-memory index (trie %d vs %d bytes, links %d vs %d bytes)" % (len(fb[0]), len(mb[0]), len(fb[1]), len(mb[1])))
        ov = observe.observation_vector(w)
        ctx.obs(ov)
        d = first_diff(ov, observe.observation_vector(M))
        if d:
            ctx.fail("answers-differ", "a query answers differently on disk and in memory: %s" % d)
        if isinstance(w.mapped, str):
            ctx.fail("mapped-reader-failed", "memory-mapped reader failed: %s" % w.mapped)
        elif w.mapped is not None:
            ctx.count("mapped_blocks_compared")
            if tuple(w.mapped) != fb:
                n = sum(1 for i in range(0, len(fb[0]), 128) if w.mapped[0][i : i + 128] != fb[0][i : i + 128])
                ctx.fail("mapped-reader", "blocks read through the memory-mapped reader right after the request differ from the store's blocks (%d trie blocks differ; sizes %d/%d vs %d/%d)" % (n, len(w.mapped[0]), len(w.mapped[1]), len(fb[0]), len(fb[1])))


def _op(op):
    from ..codec import show

    return show(op)


CHECK = Check()


def run(tier, seed, log=print):
    return run_hcheck(CHECK, tier, seed, log)


def replay(doc):
    return replay_hcheck(CHECK, doc)
