"""C01 Page set fidelity: no page lost, invented, duplicated or altered."""
from .. import alpha as al
from .. import lru as L
from ..alpha import A, Ax, Axy, Ab, Az, Aw, Awx, Sx, Bb
from ..engine_h import HCheck, Space
from ..hcommon import run_hcheck, replay_hcheck
from ..world import Cfg

ID = "C01"
LEVEL = "model_checking"
ASSUMPTIONS = [
    "bounds: histories up to the depth reported per space over the listed alphabets (DESIGN 5, 6/C01); LRUs are bytes",
    "trusted base: CPython, tmpfs file semantics, the reference model (mc/model.py)",
    "automatic webentity creations are adopted from the write reports (they are C06's business)",
]


class Check(HCheck):
    pid = ID
    owned = ("page", "pages", "links", "crawl", "as_str", "as_iter", "crawl_alias", "clear", "reopen")
    must_count = ("pages_compared_nonempty", "report_new_pages_positive")

    def spaces(self, tier):
        thorough = tier == "thorough"
        ops = [
            al.page(A),
            al.page(Ax),
            al.page(Ax, True),
            al.page(Ab),
            al.page(Az, True),
            al.page(Axy),
            al.pages((Aw, Ax), False),
            al.pages((Ab, Axy), True),
            al.LB_SINGLE,
            al.LB_SELF,
            al.LB_SRC_AND_TGT,
            al.CB_SEVERAL,
            al.CB_CROSS,
            al.create(Ax),
            al.rule(A, "path1"),
            al.as_str(al.page(Ab, True)),  # LRUs handed over as str (the API encodes them)
            al.as_str(al.CB_CROSS),
            al.as_iter(al.LB_SELF),
            al.as_iter(al.CB_SEVERAL),
            al.crawl_alias(Ab, (Axy,), (Ab, Az)),
        ]
        d = 5 if thorough else 4
        sp = [
            Space(Cfg("never"), ops, d, roots=[al.R0], name="mixed/never"),
            Space(Cfg("domain", {A: "path1"}), ops, d, roots=[al.R0, al.R1], name="mixed/domain+path1"),
        ]
        # pure insertion-order sweeps: every sibling-tree shape the sets can form
        core = [A, Ax, Ab, Az, Axy, Aw, Bb]
        sp.append(Space(Cfg("never"), [al.page(u, i % 3 == 0) for i, u in enumerate(core)], 6 if thorough else 5, name="order/core"))
        ll = al.long_lrus((75, 148, 149, 3, 74, 223, 222) if thorough else (75, 148, 149, 74, 222, 3))
        sp.append(Space(Cfg("never"), [al.page(u, i % 2 == 0) for i, u in enumerate(ll)], 6 if thorough else 5, name="order/long"))
        vl = [A + L.long_stem(n, f) for n, f in ((700, b"a"), (2200, b"a"), (2200, b"b"))]
        sp.append(Space(Cfg("never"), [al.page(u, i % 2 == 0) for i, u in enumerate(vl)] + [al.page(vl[0] + b"p:k|", True), al.links((vl[1], vl[2]))], 4 if thorough else 3, name="order/very-long"))
        # one source with 300 targets (sub-pages of the source among them), one page cited by 600
        # sources in one batch, 40 siblings inserted in ascending order: sizes a small alphabet
        # never reaches
        big = [
            al.crawl((Ab, tuple(Ab + b"p:%03d|" % i for i in range(300)) + (Az,)), (Az, (Ab,))),
            al.crawl(*[(Az + b"p:%03d|" % i, (Ax,)) for i in range(600)]),
            al.pages(tuple(A + b"p:s%03d|" % i for i in range(40)), True),
            al.page(Ab, True),
            al.page(Ax),
        ]
        sp.append(Space(Cfg("never"), big, 2, name="sizes/big-batches"))
        # short stems with unusual byte values, stems that are byte-prefixes of one another
        odd = [A + x for x in (b"\x00|", b"\xff\xfe|", b"p|", b"{|", b"}|", b"p:x\x00|", b"p:x|", b"p:xx|")]
        sp.append(Space(Cfg("never"), [al.page(u, i % 2 == 1) for i, u in enumerate(odd if thorough else odd[:7])], 5 if thorough else 4, name="order/bytes"))
        # every non-separator byte value once as a whole stem body and once inside a longer stem
        allb = [A + b"p:" + bytes([b]) + b"|" for b in range(256) if b != 0x7C] + [A + b"q:x" + bytes([b]) + b"y|" for b in range(256) if b != 0x7C]
        sp.append(Space(Cfg("never"), [al.page(u, i % 2 == 0) for i, u in enumerate(allb)], 1, roots=[al.R0, (al.page(A + b"p:\x40|"), al.page(A + b"q:x\x40y|"))], name="bytes/all-values"))
        # exhaustive small batch shapes (depth 1 from prepared states): every crawl batch with
        # <= 2 sources x <= 2 targets and every link batch of <= 2 (thorough 3) links over 4 pages
        P4 = [A, Ax, Axy, Ab]
        prep = [al.R0, (al.page(Ax, True),), (al.page(Ax, True), al.page(A)), (al.page(Axy), al.page(Ax, True), al.page(Ab, True))]
        sp.append(Space(Cfg("never"), al.all_crawl_batches(P4), 1, roots=prep, name="shapes/crawl"))
        sp.append(Space(Cfg("never"), al.all_link_batches(P4, 3 if thorough else 2), 1, roots=prep[:3], name="shapes/links"))
        if thorough:
            l2 = [A + L.long_stem(n, f) for n, f in ((75, b"\xff"), (75, b"\x00"), (149, b"{"), (149, b"}"), (76, b"\x80"))]
            l2 += [l2[0] + L.long_stem(150, b"a")]
            sp.append(Space(Cfg("never"), [al.page(u, i % 2 == 1) for i, u in enumerate(l2)], 6, name="order/long-bytes"))
        # the page set across clear() and close/reopen on ONE object: two corpora (one with a
        # multi-block stem) so that other blocks are handed out after the clear; every sequence
        life = [al.pages((Ax, Ab), True), al.page(A + L.long_stem(149), False), al.crawl((Bb, (Az, Axy)), (Az, (Bb,))), al.page(Sx), al.links((Ab, Awx)), al.clear("never", {}), al.REOPEN]
        sp.append(Space(Cfg("never"), life, 6 if thorough else 5, name="lifecycle/pages", dedup=False))
        return sp

    def check_trans(self, w, tr, ctx):
        kind = tr.op[0]
        if tr.nb_created_pages is not None and tr.pred_new_pages is not None:
            if tr.pred_new_pages:
                ctx.count("report_new_pages_positive")
            if tr.nb_created_pages != tr.pred_new_pages:
                ctx.fail("report-new-pages", "write report counts %r new pages, %r were new" % (tr.nb_created_pages, tr.pred_new_pages))
        if kind == "create" and tr.nb_created_pages:
            ctx.fail("report-new-pages", "webentity creation reports %r new pages" % tr.nb_created_pages)

    def check_state(self, w, ctx):
        t, m = w.t, w.m
        got = sorted((lru, bool(node.is_crawled())) for node, lru in t.pages_iter())
        exp = sorted(m.pages.items())
        ctx.obs(got)
        if exp:
            ctx.count("pages_compared_nonempty")
        if got != exp:
            missing = [x for x in exp if x not in got]
            extra = [x for x in got if x not in exp]
            ctx.fail("page-set", "page enumeration differs from the submitted pages: missing/altered %s, invented/duplicated %s" % (_sh(missing), _sh(extra)))
        g1, g2 = t.pages_iter(), t.webentity_prefix_iter()
        a1 = []
        live = [True, True]
        budget = 20 * (len(m.pages) + len(m.links) + len(m.named) + 10)
        while any(live):
            budget -= 1
            if budget < 0:
                ctx.fail("enumeration-does-not-end", "two enumerations advanced in turns do not terminate")
                return
            if live[0]:
                try:
                    node, lru = next(g1)
                    a1.append((lru, bool(node.is_crawled())))
                except StopIteration:
                    live[0] = False
            if live[1]:
                try:
                    next(g2)
                except StopIteration:
                    live[1] = False
        if sorted(a1) != got:
            ctx.fail("page-set-interleaved", "page enumeration advanced in turns with the prefix enumeration gives %s, alone %s" % (_sh(sorted(a1)), _sh(got)))
        n = t.count_pages()
        if n != len(m.pages):
            ctx.fail("page-count", "page count %r, %r pages were submitted" % (n, len(m.pages)))
        c = t.count_crawled_pages()
        ec = sum(1 for v in m.pages.values() if v)
        if c != ec:
            ctx.fail("crawled-count", "crawled-page count %r, %r pages were marked crawled" % (c, ec))


def _sh(items):
    return "[" + ", ".join("%s%s" % (L.show(l), "*" if c else "") for l, c in items[:6]) + "]"


CHECK = Check()


def run(tier, seed, log=print):
    return run_hcheck(CHECK, tier, seed, log)


def replay(doc):
    return replay_hcheck(CHECK, doc)
