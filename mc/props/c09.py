"""C09 Page pagination is complete, duplicate-free, ordered and resumable."""
import itertools

from .. import alpha as al
from .. import codec, engine_p
from .. import lru as L
from .. import relational as R
from ..alpha import A, Ax, Axy, Ab, Az, Aw, Awx, S, Sx, Sw, Bb, C1
from ..engine_h import HCheck, Space
from ..engine_p import PTask
from ..hcommon import run_hcheck, replay_hcheck
from ..world import Cfg

ID = "C09"
LEVEL = "model_checking"
ASSUMPTIONS = [
    "part A (engine H): on every state of a BFS over page/webentity/rule writes, every webentity, up to 6 orders of its prefix list, page sizes 1..4 (thorough 1..6) and None, crawled-only on/off: the token chain is followed to the end; oracle = get_webentity_pages / get_webentity_crawled_pages of the same state",
    "part B (engine P): on base states R1/R4/R5, every chain with at most 2 (thorough 3) page insertions interleaved at token boundaries, each branch replayed from scratch; membership 'throughout' is evaluated before the first call and after every insertion",
    "part C: token text round trip for every prefix index 0..5 and every path in {1,2,3}^<=8, and for every prefix index 0..130 with every path of <=3 steps",
    "a chain resumes every token it is issued by a fresh call carrying only the token text",
]
Sk = S + b"p:k|"
# insertion menu for interleaved writes: before the cut, after it, deeper on the token's path,
# under another prefix of the webentity, under a variation, creating a nested webentity via a rule
INS = [
    al.page(A + b"p:a|"),
    al.page(A + b"p:c|", True),
    al.page(A + b"p:zz|"),
    al.page(Ab + b"p:k|", True),
    al.page(Az + b"p:k|"),
    al.page(S + b"p:a|"),
    al.page(S + b"p:z|", True),
    al.page(Aw + b"p:r|"),
    al.page(Ab + b"p:n|p:j|"),  # under rule Ab:path2 this creates a nested webentity
]
R5 = (al.page(Ab), al.page(Ab + b"p:k|p:1|", True), al.page(Ab + b"p:k|"), al.page(A + b"p:m|"), al.page(Az, True), al.page(Sx), al.page(Aw))


class Check(HCheck):
    pid = ID
    must_count = ("chains", "multi_answer_chains", "multi_prefix_chains", "crawled_only_chains", "tokens_resumed")

    def spaces(self, tier):
        thorough = tier == "thorough"
        ops = [
            al.page(A),
            al.page(Ax, True),
            al.page(Axy),
            al.page(Ab, True),
            al.page(Az),
            al.page(A + b"p:c|"),
            al.page(Sx),
            al.page(Sk, True),
            al.page(Awx),
            al.page(Sw + b"p:q|"),
            al.create(Ax),
            al.create(Axy, Bb),
            al.rmprefix(Aw),
            al.delete(0),
            al.rule(A, "path2"),
            # a prefix whose last stem is empty (b"|" alone), with a page below it
            al.create(A + b"|"),
            al.page(A + b"|p:a|", True),
        ]
        d = 4 if thorough else 3
        # sibling pages whose stems share their first 74 bytes (order decided in the tail blocks)
        ll = [A + L.long_stem(n) for n in (75, 76, 148, 149)] + [A + b"p:" + b"a" * 72 + b"\x00\x00|", A + b"p:" + b"a" * 71 + b"|"]
        lops = [al.page(u, i % 2 == 0) for i, u in enumerate(ll)] + [al.pages((ll[1] + b"p:k|", ll[1] + b"p:m|", ll[1] + b"p:z|"), True), al.pages((ll[3] + b"p:1|", ll[3] + b"p:2|", ll[0] + b"p:1|"))]
        # 40 siblings inserted in ascending order: a right spine, tokens whose path has 40 steps
        deep_root = (al.page(A), al.pages(tuple(A + b"p:s%03d|" % i for i in range(40)), False), al.page(Sx, True))
        dops = [al.page(A + b"p:s020x|", True), al.create(A + b"p:s010|"), al.page(A + b"p:s039|p:k|")]
        return [
            Space(Cfg("domain"), dops, 1, roots=[deep_root], name="pages/deep-right-spine"),
            Space(Cfg("never"), [al.page(Bb + b"p:w11|p:c|", True), al.page(Bb + b"p:w10|p:a|p:k|")], 1, roots=[al.many_prefix_root(12)], name="pages/12-prefixes"),
            Space(Cfg("domain"), lops, 5 if thorough else 4, roots=[(al.page(A),)], name="pages/long-siblings"),
            Space(Cfg("domain"), ops, d, roots=[al.R0, al.R1, al.R4], name="pages/domain"),
            Space(Cfg("subdomain", {Ab: "path2"}), ops, d - 1, roots=[R5], name="pages/subdomain+path2"),
            # two corpora around clear / reopen with the check's own queries in between (whatever a
            # pagination remembers on the object must not outlive clear()): every sequence, no merging
            Space(Cfg("domain"), R.lifecycle_ops(), 5 if thorough else 4, roots=[al.R0], name="pages/lifecycle", dedup=False),
        ]

    def check_state(self, w, ctx):
        t = w.t
        g = R.Ground(w)
        ks = (1, 2, 3, 4, 5, 6) if getattr(self, "tier", "quick") == "thorough" else (1, 2, 3, 4)
        obs = []
        for wid in g.weids():
            pl = g.prefixes[wid]
            for order in al.few_orders(pl):
                for co in (False, True):
                    try:
                        ref = t.get_webentity_crawled_pages(wid, order) if co else t.get_webentity_pages(wid, order)
                    except Exception:
                        ctx.count("reference_query_failed")
                        continue
                    refset = sorted((d["lru"], d["crawled"]) for d in ref)

                    def pos(x):
                        best = None
                        for i, q in enumerate(order):
                            if L.is_stem_prefix(q, x) and (best is None or len(q) > len(order[best])):
                                best = i
                        return best

                    expected = [x for _, x in sorted((pos(l), l) for l, _ in refset)]
                    for k in ks + (None,):
                        ctx.count("chains")
                        if co:
                            ctx.count("crawled_only_chains")
                        tok = None
                        acc = []
                        answers = 0
                        while True:
                            try:
                                r = t.paginate_webentity_pages(wid, order, page_count=k, pagination_token=tok, crawled_only=co)
                            except Exception as e:
                                ctx.fail("token-not-resumable" if tok else "query-failed", "pages of webentity %r (prefixes %s, page size %r, crawled_only=%s): call with token %r failed: %s: %s" % (wid, _pl(order), k, co, tok, type(e).__name__, e))
                                return
                            answers += 1
                            got = [(d["lru"], d["crawled"]) for d in r["pages"]]
                            acc += got
                            if r.get("count") != len(got) or r.get("count_crawled") != sum(1 for _, c in got if c):
                                ctx.fail("counts", "answer reports count=%r count_crawled=%r and holds %d pages, %d crawled" % (r.get("count"), r.get("count_crawled"), len(got), sum(1 for _, c in got if c)))
                                return
                            if r["done"]:
                                if r.get("token"):
                                    ctx.fail("final-has-token", "final answer carries a token")
                                break
                            if k is None:
                                ctx.fail("unbounded-not-done", "an unbounded request returned a non-final answer")
                                return
                            if len(got) != k:
                                ctx.fail("non-final-size", "non-final answer holds %d pages, %d requested (webentity %r, prefixes %s, crawled_only=%s)" % (len(got), k, wid, _pl(order), co))
                                return
                            tok = r.get("token")
                            if not tok:
                                ctx.fail("non-final-no-token", "non-final answer without token")
                                return
                            ctx.count("tokens_resumed")
                            if answers > 60:
                                ctx.fail("chain-does-not-end", "pagination chain exceeds 60 answers")
                                return
                        if answers > 1:
                            ctx.count("multi_answer_chains")
                            if len(order) > 1:
                                ctx.count("multi_prefix_chains")
                        if sorted(acc) != refset:
                            ctx.fail("page-set", "paging webentity %r (prefixes %s, page size %r, crawled_only=%s) returned %s; the webentity holds %s" % (wid, _pl(order), k, co, _sh(acc), _sh(refset)))
                            return
                        # anchored outside the pagination code: the pages that resolve to the webentity
                        truth = sorted((x, g.crawled[x]) for x in g.members.get(wid, []) if g.crawled[x] or not co)
                        if sorted(acc) != truth:
                            ctx.fail("page-set-vs-resolution", "paging webentity %r (prefixes %s, page size %r, crawled_only=%s) returned %s; the indexed pages resolving to it are %s" % (wid, _pl(order), k, co, _sh(sorted(acc)), _sh(truth)))
                            return
                        if [x for x, _ in acc] != expected:
                            ctx.fail("order", "paging webentity %r (prefixes %s, page size %r) is not prefix by prefix in the given order, ascending within a prefix: %s" % (wid, _pl(order), k, [L.show(x) for x, _ in acc]))
                            return
            obs.append((wid, len(g.members.get(wid, []))))
        ctx.obs(obs)


def _pl(order):
    return "[" + ", ".join(L.show(p) for p in order) + "]"


def _sh(items):
    return "[" + ", ".join("%s%s" % (L.show(l), "*" if c else "") for l, c in items[:10]) + "]"


CHECK = Check()


# R6: rule on the http prefix only; the pages live under the https prefix. Inserting the http
# twin of a page creates a webentity whose variations capture that existing https page.
R6 = (al.page(Sx), al.page(Sk, True), al.page(S + b"p:m|"), al.page(S + b"p:c|", True), al.page(S), al.page(Sw + b"p:q|"))
INS6 = [al.page(Ax), al.page(A + b"p:k|", True), al.page(A + b"p:m|"), al.page(Aw + b"p:q|"), al.page(S + b"p:a|"), al.page(S + b"p:z|", True), al.page(Sx + b"p:deep|")]


def p_tasks(tier):
    thorough = tier == "thorough"
    mw = 3 if thorough else 2
    ks = (1, 2, 3, 4) if thorough else (1, 2, 3)
    tasks = []
    bases = [
        ("R4", Cfg("domain"), al.R4, [[A, S, Aw, Sw], [Sw, Aw, S, A], [S, A, Sw, Aw], [Aw, A, S, Sw]]),
        ("R1", Cfg("domain"), al.R1, [[A, S, Aw, Sw], [S, Sw, A, Aw], [Ax]]),
        ("R5", Cfg("subdomain", {Ab: "path2"}), R5, [[A, S, Aw, Sw], [Aw, Sw, S, A]]),
    ]
    for name, cfg, base, orders in bases:
        for order in orders:
            for k in ks:
                for co in (False, True):
                    tasks.append(PTask(cfg, base, name, order, k, co, INS, mw))
    for order in ([S, A, Sw, Aw], [Sw, S, Aw, A]):
        for k in ks:
            for co in (False, True):
                tasks.append(PTask(Cfg("domain", {A: "path1"}), R6, "R6", order, k, co, INS6, mw))
    return tasks


def token_roundtrip(ctx_counts):
    """Part C: tokens round-trip through their text for every (prefix index, path)."""
    from ..env import load

    th = load()["th"]
    bad = []
    n = 0
    for depth in range(0, 9):
        for digits in itertools.product("123", repeat=depth):
            path = int("".join(digits), 4) if digits else 0
            for i in (range(131) if depth <= 3 else range(6)):
                n += 1
                tok = th.build_pagination_token(i, path)
                back = th.parse_pagination_token(tok)
                if tuple(back) != (i, path):
                    bad.append((i, "".join(digits), tok, back))
    ctx_counts["token_roundtrips"] = n
    return bad


def run(tier, seed, log=print):
    CHECK.tier = tier
    out = run_hcheck(CHECK, tier, seed, log)
    if out.violations:
        return out
    tasks = p_tasks(tier)
    total, viols, errors = engine_p.run(tasks, log=log)
    for e in errors:
        out.harness_errors.append("engine P: " + e)
    seen = set()
    for v in viols:
        if v["oracle"] in seen:
            continue
        seen.add(v["oracle"])
        out.violations.append({"oracle": v["oracle"], "message": v["message"], "replay": {"engine": "P", "tier": tier, "task": v["task"].to_json(), "seq": v["seq"]}})
    counts = {}
    bad = token_roundtrip(counts)
    if bad:
        i, digits, tok, back = bad[0]
        out.violations.append({"oracle": "token-roundtrip", "message": "token for (prefix %d, path %s) is %r and parses back to %r" % (i, digits, tok, back), "replay": {"engine": "E", "i": i, "digits": digits}})
    cov = out.coverage
    cov["pagination_chains_with_interleaved_writes"] = {k: v for k, v in total.items()}
    cov["token_roundtrips"] = counts.get("token_roundtrips", 0)
    cov["traces_validated_against_impl"] += total["chains"]
    cov["engine"] += " | P: every chain with <= %d interleaved insertions, each replayed from scratch | E: token text round trip" % (3 if tier == "thorough" else 2)
    if not total["chains_with_2_writes"] and not viols:
        out.harness_errors.append("vacuous: no chain with two interleaved writes")
    cov["exhaustive"] = cov["exhaustive"] and not viols and not errors
    return out


def replay(doc):
    CHECK.tier = doc.get("tier", "quick")
    if doc.get("engine") == "P":
        task = PTask.from_json(doc["task"])
        v, _, _ = engine_p.run_chain(task, doc["seq"])
        return [(tag, msg, None) for tag, msg in v]
    if doc.get("engine") == "E":
        from ..env import load

        th = load()["th"]
        path = int(doc["digits"], 4) if doc["digits"] else 0
        tok = th.build_pagination_token(doc["i"], path)
        back = tuple(th.parse_pagination_token(tok))
        return [("token-roundtrip", "%r -> %r" % (tok, back), None)] if back != (doc["i"], path) else []
    return replay_hcheck(CHECK, doc)
