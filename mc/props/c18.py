"""C18 A torn or truncated write history is refused or opens consistent."""
import collections
import itertools
import multiprocessing
import os
import random
import time

from .. import alpha as al
from .. import codec, engine_f, env, guard
from .. import lru as L
from ..alpha import A, Ax, Axy, Ab, Az, Aw, Awx, S, Sx, Bb, C1
from ..run import Outcome
from ..world import Cfg

ID = "C18"
LEVEL = "fault_enumeration"
ASSUMPTIONS = [
    "fault model of the property: only an initial part of the program-ordered writes reaches the files; in-place block rewrites are atomic; appends are cut at block and at byte granularity; both files are cut at the same program point",
    "with a clear() in the history, 'the completed history reports' is read as: reported at some request boundary of the history (a cut inside the clear may still show the state before it)",
    "the write log is taken on the file objects handed to FileStorage (interposition of traph.traph.open), so it is what the code really writes, in the order it writes it",
    "rules re-supplied at reopen: those in RAM once the request in progress completes",
    "bounds: all histories up to the stated depth over the alphabet; every cut inside the last request of each history (cuts inside earlier requests are the cuts of the shorter histories, enumerated on their own); byte cuts {1, len/2, len-1} (quick) / all (thorough)",
]


def alphabet():
    long75 = A + L.long_stem(75)
    long149 = Ax + L.long_stem(149)
    return [
        al.page(Ax, True),
        al.page(long75),
        al.page(long149, True),
        al.page(Sx),  # creates a webentity with variations under the domain default
        al.links((Ax, Ab), (Ab, Ax), (Ax, Ab)),
        al.links((Az, long75), (Az, Az)),
        al.crawl((Axy, (Ax, Axy, Bb)), (Bb, ())),
        al.create(Ax),
        al.rule(A, "path1"),
        al.pages((Ab, Az), True),
        al.clear("domain", {A: "path1"}),  # two truncations + re-creation: cuts between them too
    ]


def root_alphabet():
    one = b"s:" + b"a" * 100 + b"|"  # a one-stem LRU of 103 bytes: head + tail as the ROOT node
    one2 = b"s:" + b"a" * 99 + b"b|"
    return [al.page(one, True), al.page(one2), al.page(one + b"p:k|"), al.page(A), al.links((one, A), (A, one2)), al.crawl((one2, (one, one2)),), al.create(one)]


def spaces(tier):
    thorough = tier == "thorough"
    ops = alphabet()
    return [
        (Cfg("never"), root_alphabet(), 3 if thorough else 2, "crash/never-root"),
        (Cfg("domain"), ops, 4 if thorough else 3, "crash/domain"),
        (Cfg("never", {A: "path2"}), ops, 3 if thorough else 2, "crash/never+path2"),
    ]


_G = {}


def _work(args):
    si, hist = args
    cfg, ops, depth, name = _G["spaces"][si]
    ns = env.load()
    stats = collections.Counter()
    viols = []
    try:
        for n, partial, status, viol in engine_f.cuts_of_history(ns, cfg, hist, byte_cuts=_G["byte_cuts"]):
            stats["cuts"] += 1
            stats["cuts_" + status] += 1
            if partial is not None:
                stats["byte_cuts"] += 1
            for tag, msg in viol:
                viols.append((tag, msg, n, partial))
        stats["histories"] += 1
    except Exception:
        import traceback

        return si, hist, stats, viols, traceback.format_exc()[-800:]
    return si, hist, stats, viols, None


def run(tier, seed, log=print):
    ns = env.load()
    env.scratch_root()
    sp = spaces(tier)
    _G["spaces"] = sp
    _G["byte_cuts"] = "all" if tier == "thorough" else "some"
    tasks = []
    for si, (cfg, ops, depth, name) in enumerate(sp):
        for d in range(0, depth + 1):
            for hist in itertools.product(ops, repeat=d):
                tasks.append((si, tuple(hist)))
    out = Outcome()
    total = collections.Counter()
    t0 = time.time()
    samples = []
    seen_tags = set()
    outcomes = set()
    with multiprocessing.get_context("fork").Pool(min(16, os.cpu_count() or 1)) as pool:
        results = guard.imap(pool, _work, tasks)
        while True:
            try:
                si, hist, stats, viols, err = next(results)
            except StopIteration:
                break
            except guard.Stuck as st:
                si, hist = st.task
                out.violations.append({"oracle": "reopen-or-query-hangs", "message": "reopening / querying some cut of this history does not come back   [space %s; history: %s]" % (sp[si][3], " ; ".join(codec.show(o) for o in hist)), "replay": {"engine": "F", "tier": tier, "cfg": sp[si][0].to_json(), "history": codec.enc(hist), "history_text": [codec.show(o) for o in hist], "n": -1, "partial": None, "hang": True}})
                break
            total.update(stats)
            if err:
                out.harness_errors.append("engine F: %s on %s" % (err, [codec.show(o) for o in hist]))
                continue
            if not stats["histories"]:
                total["histories_disabled"] += 1
            outcomes.add((stats["cuts_refused"], stats["cuts_opened"]))
            if len(samples) < 400 and stats["cuts"]:
                samples.append({"space": sp[si][3], "history": [codec.show(o) for o in hist], "cuts": stats["cuts"], "refused": stats["cuts_refused"], "opened": stats["cuts_opened"]})
            for tag, msg, n, partial in viols:
                if tag in seen_tags:
                    continue
                seen_tags.add(tag)
                out.violations.append(
                    {
                        "oracle": tag,
                        "message": "%s   [space %s; history: %s; cut after write %d%s]" % (msg, sp[si][3], " ; ".join(codec.show(o) for o in hist), n, "" if partial is None else " + %d bytes of the next append" % partial),
                        "replay": {"engine": "F", "tier": tier, "cfg": sp[si][0].to_json(), "history": codec.enc(hist), "history_text": [codec.show(o) for o in hist], "n": n, "partial": partial},
                    }
                )
            if out.violations:
                pool.terminate()
                break
    log("  [F] histories=%d cuts=%d (byte cuts %d) refused=%d opened=%d violations=%d t=%.1fs" % (total["histories"], total["cuts"], total["byte_cuts"], total["cuts_refused"], total["cuts_opened"], len(out.violations), time.time() - t0))
    random.Random(seed).shuffle(samples)
    out.coverage = {
        "evaluations": total["cuts"],
        "distinct_nontrivial": total["cuts_opened"] + total["cuts_refused"] if total["cuts"] else 0,
        "rule": "one evaluation = one cut (write-log prefix, possibly with the last append cut at a byte offset) of one history, materialised into a fresh folder, reopened by the real Traph and queried; cuts are distinct by construction (history, prefix length, byte offset); a cut is non-trivial when the reopen either refused the folder or opened it and the query battery ran",
        "samples": samples[:6] or [{"note": "nothing explored"}],
        "histories": total["histories"],
        "cuts_refused_at_open": total["cuts_refused"],
        "cuts_opened_and_queried": total["cuts_opened"],
        "byte_granular_cuts": total["byte_cuts"],
        "distinct_refused_opened_profiles": len(outcomes),
        "exhaustive": not out.violations and not out.harness_errors,
        "engine": "F: every prefix of the program-ordered write log of every history up to the depth bound, cut inside the last request",
        "depth": {name: depth for _, _, depth, name in sp},
    }
    if not out.violations and (not total["cuts_refused"] or not total["cuts_opened"]):
        out.harness_errors.append("vacuous: no cut was refused or none was opened")
    return out


def replay(doc):
    ns = env.load()
    cfg = Cfg.from_json(doc["cfg"])
    hist = codec.dec(doc["history"])
    if doc.get("hang"):
        ctx_ = multiprocessing.get_context("fork")

        def target():
            for _ in engine_f.cuts_of_history(ns, cfg, hist, byte_cuts="some"):
                pass
            os._exit(0)

        p = ctx_.Process(target=target)
        p.start()
        p.join(120)
        if p.is_alive():
            p.kill()
            p.join()
            return [("reopen-or-query-hangs", "the cuts of this history do not come back within 120s", None)]
        return [] if p.exitcode == 0 else [("reopen-or-query-hangs", "the process enumerating the cuts died (exit %r)" % p.exitcode, None)]
    res = []
    for n, partial, status, viol in engine_f.cuts_of_history(ns, cfg, hist, byte_cuts="all" if doc.get("partial") not in (None, 1) else "some", only_last_op=False):
        if n == doc["n"] and partial == doc.get("partial"):
            res = [(tag, msg, None) for tag, msg in viol]
    return res
