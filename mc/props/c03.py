"""C03 Link multigraph fidelity with inbound/outbound symmetry."""
import itertools

from .. import alpha as al
from .. import lru as L
from .. import rawdec
from ..alpha import A, Ax, Axy, Ab, Az, Aw, Sx, Bb
from ..engine_h import HCheck, Space
from ..hcommon import run_hcheck, replay_hcheck
from ..world import Cfg

ID = "C03"
LEVEL = "model_checking"
ASSUMPTIONS = [
    "bounds: histories up to the depth reported per space over the link/crawl batch shapes of DESIGN 5",
    "trusted base: CPython, tmpfs file semantics, the reference model (Counter of submissions)",
]
SWITCHES = list(itertools.product((False, True), repeat=3))  # inbound, internal, outbound


class Check(HCheck):
    pid = ID
    owned = ("links", "crawl", "clear", "reopen", "as_str", "as_iter", "crawl_alias")
    must_count = ("page_links_nonempty", "self_link_seen", "weight_gt1_seen", "in_and_out_on_one_page")

    def spaces(self, tier):
        thorough = tier == "thorough"
        ops = [
            al.LB_SINGLE,
            al.LB_REPEAT,
            al.LB_BOTHDIR,
            al.LB_SELF,
            al.LB_EXTEND,
            al.LB_SIBLINGS,
            al.LB_SRC_AND_TGT,
            al.CB_SEVERAL,
            al.CB_CROSS,
            al.CB_KNOWN,
            al.page(Ax, True),
            al.page(Az),
            al.create(Ax),
            al.rule(A, "path1"),
            al.as_str(al.LB_SRC_AND_TGT),
            al.as_iter(al.LB_BOTHDIR),  # add_links given a one-shot iterator
            al.as_iter(al.CB_CROSS),  # crawl targets given as one-shot iterators
            al.crawl_alias(Ax, (Ab, Axy), (Az,)),  # same source as bytes and as str in one mapping
            al.as_str(al.CB_KNOWN),
        ]
        d = 4 if thorough else 3
        sp = [
            Space(Cfg("never"), ops, d + 1 if thorough else d, roots=[al.R0], name="links/never"),
            Space(Cfg("domain"), ops, d, roots=[al.R0, al.R1, al.R2], name="links/domain"),
        ]
        ll = al.long_lrus((75, 149, 74, 222))
        lops = [al.links((ll[0], ll[1])), al.links((ll[1], ll[0]), (ll[1], ll[1])), al.crawl((ll[2], (ll[0], ll[2]))), al.links((A, ll[1]), (ll[0], A)), al.page(ll[1], True), al.links((ll[3], ll[0]), (Ax, ll[3])), al.page(ll[3] + b"p:k|"), al.links((ll[1] + b"p:c|q:d|", Ax), (ll[0], ll[1] + b"p:c|q:d|"), (ll[1] + b"p:c|q:d|", ll[1] + b"p:c|q:d|"))]
        sp.append(Space(Cfg("never"), lops, 5 if thorough else 4, name="links/long"))
        # exhaustive small batch shapes, depth 1 (thorough 2 for link batches) from prepared states
        P3 = [Ax, Axy, Ab]
        prep = [al.R0, (al.page(Ax, True),), (al.links((Ax, Ab), (Ab, Ax), (Axy, Axy)),)]
        sp.append(Space(Cfg("never"), al.all_link_batches(P3, 3), 1, roots=prep, name="shapes/links"))
        sp.append(Space(Cfg("never"), al.all_crawl_batches([A, Ax, Axy, Ab]), 1, roots=prep + [(al.page(Axy), al.page(Ax, True), al.page(Ab, True))], name="shapes/crawl"))
        if thorough:
            sp.append(Space(Cfg("never"), al.all_link_batches(P3, 2), 2, roots=[al.R0], name="shapes/links-x2"))
        big = [
            al.crawl((Ab, tuple(Ab + b"p:%03d|" % i for i in range(300)) + (Az,)), (Az, (Ab,))),
            al.crawl(*[(Az + b"p:%03d|" % i, (Ax,)) for i in range(600)]),
            al.links(*[(Ab, Ax)] * 300),
            al.links((Ax, Ab), (Ab, Ax)),
        ]
        sp.append(Space(Cfg("never"), big, 2, name="sizes/big-batches"))
        # two different corpora, queries in between, clear and reopen: every sequence (no merging)
        life = [al.links((Ax, Ab), (Ab, Ax), (Ax, Ax)), al.crawl((Bb, (Az, Axy)), (Az, (Bb,))), al.links((Az, Az), (Axy, Bb)), al.OBS, al.clear("never", {}), al.REOPEN]
        sp.append(Space(Cfg("never"), life, 5 if thorough else 4, name="lifecycle/never", dedup=False))
        return sp

    def check_trans(self, w, tr, ctx):
        pass

    def check_state(self, w, ctx):
        t, m = w.t, w.m
        total = sum(m.links.values())
        n = t.count_links()
        if n != total:
            ctx.fail("link-count", "global link count %r, %r links were submitted" % (n, total))
        out_by = {}
        in_by = {}
        for (s, tg), wt in m.links.items():
            out_by.setdefault(s, []).append((tg, wt))
            in_by.setdefault(tg, []).append((s, wt))
            if s == tg:
                ctx.count("self_link_seen")
            if wt > 1:
                ctx.count("weight_gt1_seen")
        obs = []
        big = len(m.pages) > 60  # size letters: every page still checked, with fewer switch settings
        for pi, p in enumerate(sorted(m.pages)):
            outs = out_by.get(p, [])
            ins = in_by.get(p, [])
            if outs and ins:
                ctx.count("in_and_out_on_one_page")
            for inb, inte, outb in (SWITCHES if not big else [(True, True, True), (False, True, True), (True, False, False)]):
                exp = []
                for tg, wt in outs:
                    if tg != p and outb:
                        exp.append((p, tg, wt))
                    if tg == p and inte:
                        exp.append((p, p, wt))
                if inb:
                    for s, wt in ins:
                        if s != p:
                            exp.append((s, p, wt))
                got = [tuple(x) for x in t.get_page_links(p, include_inbound=inb, include_internal=inte, include_outbound=outb)]
                if exp:
                    ctx.count("page_links_nonempty")
                if sorted(got) != sorted(exp):
                    ctx.fail(
                        "page-links",
                        "links of page %s (inbound=%s internal=%s outbound=%s): reported %s, submitted %s" % (L.show(p), inb, inte, outb, _sh(sorted(got)), _sh(sorted(exp))),
                    )
                    return
                if inb and inte and outb:
                    obs.append(sorted(got))
            if big and pi > 40 and not (outs and ins):
                continue
            # degrees
            eo = [(tg, wt) for tg, wt in outs if tg != p]
            ei = [(s, wt) for s, wt in ins if s != p]
            selfw = [wt for tg, wt in outs if tg == p]
            expd = {
                ("in", False): len(ei),
                ("in", True): sum(wt for _, wt in ei),
                ("out", False): len(eo),
                ("out", True): sum(wt for _, wt in eo),
                ("all", False): len(ei) + len(eo) + len(selfw),
                ("all", True): sum(wt for _, wt in ei) + sum(wt for _, wt in eo) + sum(selfw),
            }
            for (side, weighted), e in expd.items():
                fn = {"in": t.get_page_indegree, "out": t.get_page_outdegree, "all": t.get_page_degree}[side]
                g = fn(p, weighted=weighted)
                if g != e:
                    ctx.fail("degree", "%s-degree of %s (weighted=%s) is %r, expected %r" % (side, L.show(p), weighted, g, e))
                    return
        ctx.obs(obs)
        lo = sorted(t.links_iter(out=True))
        li = sorted((b, a) for a, b in t.links_iter(out=False))
        # the direction switch given as a falsy / truthy non-boolean (0, None, 1) means the same
        for alt, ref in ((0, li), (None, li), (1, lo)):
            got = sorted(t.links_iter(out=alt)) if alt else sorted((b, a) for a, b in t.links_iter(out=alt))
            if got != ref:
                ctx.fail("links-enum-direction-arg", "links_iter(out=%r) enumerates %r; links_iter(out=%s) enumerates %r" % (alt, got[:6], bool(alt), ref[:6]))
                return
        # the two enumerations alive at the same time, advanced in turns, with a page-link query
        # issued in between (two link-list walks suspended at once)
        g1, g2 = t.links_iter(out=True), t.links_iter(out=False)
        a1, a2 = [], []
        live = [not big, not big]  # size letters: skipped (hundreds of steps)
        if big:
            a1, a2 = list(lo), [(b, a) for a, b in li]
        some_page = next(iter(sorted(m.pages)), None)
        budget = 20 * (len(m.pages) + len(m.links) + len(m.named) + 10)
        while any(live):
            budget -= 1
            if budget < 0:
                ctx.fail("enumeration-does-not-end", "two enumerations advanced in turns do not terminate")
                return
            for gi, (gen, acc) in enumerate(((g1, a1), (g2, a2))):
                if live[gi]:
                    try:
                        acc.append(next(gen))
                    except StopIteration:
                        live[gi] = False
            if some_page is not None:
                t.get_page_links(some_page)
        if sorted(a1) != lo or sorted((b, a) for a, b in a2) != li:
            ctx.fail("links-enum-interleaved", "the two link enumerations advanced in turns give %s / %s, one after the other %s / %s" % (_sh(sorted(a1)), _sh(sorted((b, a) for a, b in a2)), _sh(lo), _sh(li)))
        support = sorted(m.links)
        if lo != support:
            ctx.fail("links-enum-out", "outbound link enumeration %s differs from the submitted links %s" % (_sh(lo), _sh(support)))
        if li != lo:
            ctx.fail("links-enum-transpose", "inbound link enumeration is not the transpose of the outbound one: %s vs %s" % (_sh(li), _sh(lo)))
        # raw link store: every stub reachable from exactly one list head; 2 stubs per submission
        a, b = w.store_bytes()
        tri = rawdec.check_trie(a)
        if not tri.errors:
            lk = rawdec.check_links(tri, b)
            if lk.errors:
                ctx.fail("link-store-structure", lk.errors[0])
            elif lk.nstubs != 2 * total:
                ctx.fail("link-store-size", "%d stubs stored for %d submitted links" % (lk.nstubs, total))


def _sh(items):
    return "[" + ", ".join("(" + ", ".join(L.show(x) if isinstance(x, bytes) else str(x) for x in it) + ")" for it in items[:8]) + ("..." if len(items) > 8 else "") + "]"


CHECK = Check()


def run(tier, seed, log=print):
    return run_hcheck(CHECK, tier, seed, log)


def replay(doc):
    return replay_hcheck(CHECK, doc)
