"""C19 Storage growth is exactly accounted for; re-adding allocates nothing."""
from .. import alpha as al
from .. import lru as L
from .. import rawdec
from ..alpha import A, Ax, Axy, Ab, Az, Aw, Sx, Bb, C1
from ..engine_h import HCheck, Space
from ..hcommon import run_hcheck, replay_hcheck
from ..world import Cfg

ID = "C19"
LEVEL = "model_checking"
ASSUMPTIONS = [
    "bounds: histories up to the depth reported per space; stem lengths 1..223 bytes around the 74-byte payload multiples",
    "trusted base: CPython, tmpfs file semantics, the independent raw decoder mc/rawdec.py",
    "metrics() is compared only when the trie holds at least one stem (it divides by the number of stems)",
]


def blocks_for(stem):
    return -(-len(stem) // 74)


class Check(HCheck):
    pid = ID
    owned = ("page", "pages", "links", "crawl", "create", "addprefix", "rmprefix", "rule", "move", "clear", "reopen", "as_iter", "crawl_alias")
    must_count = ("multiblock_stems", "exact_multiple_stems", "resubmissions", "links_nonzero", "metrics_compared")

    def spaces(self, tier):
        thorough = tier == "thorough"
        lens1 = (75, 148, 149, 74, 222, 3) if not thorough else (75, 148, 149, 74, 3, 223, 222, 76, 296)
        l1 = al.long_lrus(lens1)
        l2 = [l1[0] + L.long_stem(148, b"a"), l1[1] + L.long_stem(75, b"\xff")]
        ops = [al.page(u, i % 2 == 0) for i, u in enumerate(l1)]
        ops += [al.page(l2[0]), al.create(l2[1]), al.addprefix(l1[1], 0), al.rule(l1[0], "path2"), al.links((l1[2], l2[0]), (l1[2], l2[0])), al.crawl((l1[0], (l1[1], l1[0])))]
        sp = [Space(Cfg("never"), ops, 5 if thorough else 4, name="long/never")]
        vl = [A + L.long_stem(n, f) for n, f in ((700, b"a"), (2200, b"a"), (2200, b"b"), (4000, b"c"))]
        sp.append(Space(Cfg("never"), [al.page(u, i % 2 == 0) for i, u in enumerate(vl)] + [al.page(vl[0] + b"p:k|"), al.create(vl[1]), al.rule(vl[2], "path2"), al.REOPEN], 4 if thorough else 3, name="long/very-long"))
        # every stem-length shape (lengths {3,74,75,148,149,222}, up to 3 stems) inserted in one go
        shapes = al.shape_lrus(3)
        prep = [al.R0, (al.page(A + L.long_stem(75, b"a")),), (al.page(A + L.long_stem(149, b"a") + b"p:k|"),)]
        sp.append(Space(Cfg("never"), [al.page(u, i % 2 == 0) for i, u in enumerate(shapes)], 1, roots=prep, name="shapes/one-insertion"))
        sp.append(Space(Cfg("never"), [al.page(u) for u in al.shape_lrus(2)], 2, name="shapes/two-insertions"))
        cops = [al.page(A + b"|p:x|"), al.page(A + b"||"), al.page(Ax), al.page(Ax, True), al.page(Axy), al.pages((Ab, Aw)), al.create(C1), al.create(Ax), al.addprefix(Az, 0), al.rmprefix(A + b"p:q|"), al.rmprefix(Ax), al.rule(Ax, "path2"), al.rule(A, "path1"), al.LB_REPEAT, al.CB_KNOWN, al.move(Ab, 0), al.delete(0), al.as_iter(al.LB_REPEAT), al.crawl_alias(Ax, (Ab,), (Ab, Axy)), al.REOPEN, al.clear("domain", {Ax: "path2"})]
        sp.append(Space(Cfg("domain"), cops, 4 if thorough else 3, roots=[al.R0, al.R1], name="core/domain"))
        return sp

    def check_trans(self, w, tr, ctx):
        pass

    def make_world(self, cfg, hist):
        # remember trie length and named closure before the last op (re-submission clause)
        from ..world import World, Disabled

        w = World(cfg, predict_rules=False)
        tr = None
        try:
            for i, op in enumerate(hist):
                if i == len(hist) - 1:
                    w.before = (len(w.store_bytes()[0]), frozenset(w.m.closure()))
                tr = w.apply(op)
        except Disabled:
            w.close()
            return None, None
        return w, tr

    def check_state(self, w, ctx):
        t, m = w.t, w.m
        a, b = w.store_bytes()
        clo = m.closure()
        exp_blocks = 1
        exp_tails = 0
        for l in clo:
            s = L.stems(l)[-1]
            k = blocks_for(s)
            exp_blocks += k
            exp_tails += k - 1
            if k > 1:
                ctx.count("multiblock_stems")
            if len(s) % 74 == 0:
                ctx.count("exact_multiple_stems")
        ctx.obs((len(a), len(b)))
        if len(a) != 128 * exp_blocks:
            ctx.fail("trie-size", "trie store holds %s blocks, %d expected (1 header + one per 74 bytes of each of the %d distinct stem-prefixes)" % (len(a) / 128.0, exp_blocks, len(clo)))
        subs = sum(m.links.values())
        if subs:
            ctx.count("links_nonzero")
        if len(b) != 16 * (1 + 2 * subs):
            ctx.fail("link-store-size", "link store holds %s blocks, %d expected (1 header + 2 stubs for each of the %d submitted links)" % (len(b) / 16.0, 1 + 2 * subs, subs))
        before = getattr(w, "before", None)
        if before is not None and before[1] == frozenset(clo):
            ctx.count("resubmissions")
            if len(a) != before[0]:
                ctx.fail("regrowth", "a request naming only known LRUs grew the trie store from %d to %d bytes" % (before[0], len(a)))
        tri = rawdec.check_trie(a)
        if tri.errors:
            ctx.fail("unreferenced-block", tri.errors[0])
        else:
            lk = rawdec.check_links(tri, b)
            if lk.errors:
                ctx.fail("unreferenced-stub", lk.errors[0])
        if clo:
            try:
                mt = t.metrics()
            except Exception as e:
                ctx.fail("metrics-failed", "metrics() failed with %s: %s" % (type(e).__name__, e))
                return
            ctx.count("metrics_compared")
            tm = mt["lru_trie"]
            if tm["nb_pages"] != len(m.pages):
                ctx.fail("metrics-pages", "metrics report %r pages, %d were submitted" % (tm["nb_pages"], len(m.pages)))
            if tm["nb_tail_nodes"] != exp_tails:
                ctx.fail("metrics-tails", "metrics report %r tail blocks, %d expected" % (tm["nb_tail_nodes"], exp_tails))
            if tm["nb_nodes"] != exp_blocks - 1:
                ctx.fail("metrics-nodes", "metrics report %r blocks, %d expected" % (tm["nb_nodes"], exp_blocks - 1))
            if mt["link_store"]["nb_links"] != subs:
                ctx.fail("metrics-links", "metrics report %r links, %d were submitted" % (mt["link_store"]["nb_links"], subs))


CHECK = Check()


def run(tier, seed, log=print):
    return run_hcheck(CHECK, tier, seed, log)


def replay(doc):
    return replay_hcheck(CHECK, doc)
