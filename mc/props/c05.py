"""C05 Webentity page sets partition the pages and agree with resolution."""
import itertools

from .. import lru as L
from .. import relational as R
from ..engine_h import HCheck
from ..hcommon import run_hcheck, replay_hcheck

ID = "C05"
LEVEL = "model_checking"
ASSUMPTIONS = [
    "relational oracle: ground truth = pages_iter + retrieve_webentity + webentity_prefix_iter of the same state (tied to the reference model by C01/C04)",
    "bounds: histories up to the depth reported per space; every permutation of every webentity's prefix list (at most 4 prefixes -> 24 orders)",
]


class Check(HCheck):
    pid = ID
    must_count = ("webentity_with_pages", "nested_exclusion", "multi_prefix_orders", "crawled_subset_nonempty", "page_at_prefix_node")

    def spaces(self, tier):
        return R.rich_spaces(tier) + [R.latin1_space(tier)]

    def check_state(self, w, ctx):
        t = w.t
        g = R.Ground(w)
        union = []
        ctx.obs(sorted(g.res.items()))
        for wid in g.weids():
            pl = g.prefixes[wid]
            exp = sorted((p, g.crawled[p]) for p in g.members.get(wid, []))
            if exp:
                ctx.count("webentity_with_pages")
            if any(p in g.owner for p, _ in exp):
                ctx.count("page_at_prefix_node")
            # pages below a nested webentity's prefix are excluded from the enclosing one
            for p, _ in g.pages:
                if g.res[p] != wid and any(L.is_stem_prefix(q, p) for q in pl):
                    ctx.count("nested_exclusion")
                    break
            orders = list(itertools.permutations(pl)) if len(pl) <= 4 else [tuple(pl), tuple(reversed(pl))]
            if len(orders) > 1:
                ctx.count("multi_prefix_orders")
            for order in orders:
                try:
                    qorder = [w.q(p) for p in order]
                    got = [(d["lru"], d["crawled"]) for d in t.get_webentity_pages(wid, qorder)]
                    gotc = [(d["lru"], d["crawled"]) for d in t.get_webentity_crawled_pages(wid, qorder)]
                except Exception as e:
                    ctx.fail("query-failed", "pages of webentity %r with prefixes %s failed: %s: %s" % (wid, _pl(order), type(e).__name__, e))
                    return
                try:
                    goti = [(d["lru"], d["crawled"]) for d in t.get_webentity_pages(wid, iter(list(qorder)))]
                except Exception as e:
                    goti = "%s: %s" % (type(e).__name__, e)
                if goti != got:
                    ctx.fail("prefixes-as-iterator", "pages of webentity %r with the prefixes handed over as a one-shot iterator: %s; as a list: %s" % (wid, goti if isinstance(goti, str) else _sh(goti), _sh(got)))
                    return
                if len(set(x[0] for x in got)) != len(got):
                    ctx.fail("duplicate-page", "pages of webentity %r (prefixes %s) list a page twice: %s" % (wid, _pl(order), _sh(got)))
                    return
                if sorted(got) != exp:
                    ctx.fail("page-set", "pages of webentity %r (prefixes %s) are %s; the pages resolving to it are %s" % (wid, _pl(order), _sh(sorted(got)), _sh(exp)))
                    return
                expc = [x for x in exp if x[1]]
                if expc:
                    ctx.count("crawled_subset_nonempty")
                if sorted(gotc) != expc:
                    ctx.fail("crawled-subset", "crawled pages of webentity %r (prefixes %s) are %s, expected %s" % (wid, _pl(order), _sh(sorted(gotc)), _sh(expc)))
                    return
            union += [x[0] for x in exp]
        resolved = sorted(p for p, _ in g.pages if g.res[p] is not None)
        if sorted(union) != resolved:
            ctx.fail("partition", "union over webentities %s differs from the pages that resolve %s" % ([L.show(x) for x in sorted(union)], [L.show(x) for x in resolved]))


def _pl(order):
    return "[" + ", ".join(L.show(p) for p in order) + "]"


def _sh(items):
    return "[" + ", ".join("%s%s" % (L.show(l), "*" if c else "") for l, c in items[:8]) + "]"


CHECK = Check()


def run(tier, seed, log=print):
    return run_hcheck(CHECK, tier, seed, log)


def replay(doc):
    return replay_hcheck(CHECK, doc)
