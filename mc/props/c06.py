"""C06 Automatic webentity creation follows the creation rules exactly."""
from .. import alpha as al
from .. import lru as L
from ..alpha import A, Ax, Axy, Ab, Az, Aw, Awx, S, Sx, Bb, C1
from ..engine_h import HCheck, Space
from ..hcommon import run_hcheck, replay_hcheck
from ..world import Cfg

ID = "C06"
LEVEL = "model_checking"
ASSUMPTIONS = [
    "rule family: Hyphe's domain / subdomain / path-N regexes (matches start at offset 0 and end on a stem boundary) and a never-matching default",
    "reference ladder and reference variations are written from the property text (mc/model.py, mc/lru.py), not from traph/helpers.py",
    "rule installation: the report must equal the model outcome of re-inserting the pages beneath the anchor in SOME order (all permutations tried, at most 6 pages beneath an anchor)",
    "bounds: 9 configurations (3 defaults x 3 rule sets), histories up to the depth reported per space",
]
PT = b"s:http|t:8080|h:com|h:a|"
PTS = b"s:https|t:8080|h:com|h:a|"
PROBES = [b"s:http|h:LOCALHOST|p:x|p:y|", b"s:https|h:LOCALHOST|", PT, PT + b"p:x|p:y|", PTS + b"h:www|", A, Ax, Axy, Axy + b"p:q|", Ab, Aw, Awx, S, Sx, Bb, C1, b"s:http|", b"s:http|h:org|", A + b"p:a|", b"s:ftp|h:com|h:a|p:x|", Bb + b"h:www|p:k|", b"s:https|h:com|h:b|h:c|p:z|"]


class Check(HCheck):
    pid = ID
    predict_rules = True
    owned = ("page", "pages", "links", "crawl", "rule", "unrule", "rmprefix", "addprefix", "move")
    must_count = ("creation_predicted", "no_creation_predicted", "variations_partly_owned", "rule_install_with_pages", "potential_compared", "potential_from_rule", "potential_from_default", "potential_none", "created_by_rule_longer_than_E")

    def spaces(self, tier):
        thorough = tier == "thorough"
        ops = [
            al.page(A),
            al.page(Ax),
            al.page(Axy, True),
            al.page(Sx),
            al.page(Awx),
            al.page(Bb),
            al.page(C1),
            al.page(b"s:http|h:LOCALHOST|p:x|"),  # the family's 'localhost' alternative only matches case-insensitively
            al.rule(b"s:http|h:LOCALHOST|", "path1"),
            al.page(PT + b"p:x|"),  # with a port stem: rules and variations must keep it
            al.page(PTS + b"h:www|p:y|p:z|"),
            al.links((Ab, S + b"h:www|p:k|")),
            al.create(Aw),
            al.create(Ax),
            al.delete(0),
            al.rmprefix(Ax),
            al.rmprefix(A, "right"),
            al.addprefix(Axy, 0),
            al.move(Aw, 0),
            al.rule(A, "path1"),
            al.rule(Ax, "path2"),
            al.rule(Ax, "path1"),  # a page AT the anchor is itself matched by the rule
            al.rule(C1, "subdomain"),
            al.rule(Axy, "path1"),  # anchored two path stems down, proposes the prefix one stem up
            al.rule(Aw, "domain"),  # anchored on the www sub-domain, proposes the domain above it
            al.unrule(A),
            al.REOPEN,
            # clear() handing over another default rule: whatever was remembered about the old one must go
            al.clear("never"),
            al.clear("domain"),
            al.clear("subdomain", {Ax: "path1"}),
        ]
        sp = []
        for default in ("never", "domain", "subdomain"):
            for rules in ({}, {A: "path1"}, {A: "path2", Ax: "path1"}):
                sp.append(Space(Cfg(default, rules), ops, 4 if thorough else 3, name="ladder/%s/%s" % (default, "+".join("%s:%s" % (L.show(a), k) for a, k in sorted(rules.items())) or "norules")))
        return sp

    def check_trans(self, w, tr, ctx):
        kind = tr.op[0]
        m, t = w.m, w.t
        if kind in ("page", "pages", "links", "crawl"):
            got = sorted(sorted(v) for v in (tr.created or {}).values())
            exp = sorted(tr.pred_created or [])
            if exp:
                ctx.count("creation_predicted")
                for pl in exp:
                    if len(pl) < len(L.ref_variations(pl[0])):
                        ctx.count("variations_partly_owned")
            else:
                ctx.count("no_creation_predicted")
            if got != exp:
                ctx.fail("created-webentities", "request %s reports created prefixes %s; the rules give %s" % (_op(tr.op), _pls(got), _pls(exp)))
                return
            if kind == "page":
                lru = tr.op[1]
                e = m.resolve(lru)
                try:
                    gp = t.retrieve_prefix(lru)
                except w.TraphException:
                    gp = None
                if gp != e:
                    ctx.fail("resolves-to-max", "after its insertion %s resolves to prefix %s, expected %s" % (L.show(lru), gp and L.show(gp), e and L.show(e)))
        elif kind == "rule":
            got = tuple(sorted(tuple(sorted(v)) for v in (tr.created or {}).values()))
            outs = tr.pred_rule_outcomes
            if outs is not None:
                if any(outs):
                    ctx.count("rule_install_with_pages")
                if got not in outs:
                    ctx.fail("rule-install", "installing %s reports created prefixes %s; re-inserting the pages beneath the anchor in any order gives one of %s" % (_op(tr.op), _pls(got), [_pls(o) for o in sorted(outs)][:4]))
            if tr.nb_created_pages:
                ctx.fail("rule-install-pages", "installing a rule reports %r new pages" % tr.nb_created_pages)

    def check_state(self, w, ctx):
        t, m = w.t, w.m
        before = w.store_bytes()
        obs = []
        for l in PROBES:
            exp = m.potential(l)
            try:
                got = t.get_potential_prefix(l)
            except Exception as e:
                ctx.fail("potential-failed", "potential prefix of %s failed: %s: %s" % (L.show(l), type(e).__name__, e))
                return
            ctx.count("potential_compared")
            E, K, create = m.ladder(l)
            if exp is None:
                ctx.count("potential_none")
            elif create and m.K(l):
                ctx.count("potential_from_rule")
                if E is not None:
                    ctx.count("created_by_rule_longer_than_E")
            elif create:
                ctx.count("potential_from_default")
            if (got or None) != exp:
                ctx.fail("potential-prefix", "potential prefix of %s is %r, the ladder gives %r (E=%s, K=%s)" % (L.show(l), got, exp, E and L.show(E), K and L.show(K)))
                return
            obs.append(got or None)
        ctx.obs(obs)
        if w.store_bytes() != before:
            ctx.fail("potential-writes", "asking for potential prefixes changed the stores")


def _op(op):
    from ..codec import show

    return show(op)


def _pls(lists):
    return "[" + "; ".join("{" + ", ".join(L.show(p) for p in pl) + "}" for pl in lists) + "]"


CHECK = Check()


def run(tier, seed, log=print):
    return run_hcheck(CHECK, tier, seed, log)


def replay(doc):
    return replay_hcheck(CHECK, doc)
