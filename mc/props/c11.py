"""C11 Close and reopen preserves everything; clear empties everything."""
import os

from .. import alpha as al
from .. import lru as L
from .. import observe
from ..alpha import A, Ax, Axy, Ab, Az, Aw, Awx, S, Sx, Bb, C1
from ..engine_h import HCheck, Space
from ..hcommon import run_hcheck, replay_hcheck
from ..world import Cfg, World, Disabled

ID = "C11"
LEVEL = "model_checking"
ASSUMPTIONS = [
    "twin oracle: a second index on another folder receives the same writes but is never closed (after a clear: a freshly created index with the rules given to the clear request)",
    "'every observable answer' = the observation vector of mc/observe.py (about 230 read-only calls per state)",
    "rules are re-supplied on reopen as the API requires; clear is exercised with both arguments given",
    "bounds: histories up to the depth reported per space with reopen and clear as ordinary alphabet letters (any position, any number of times); file back-end on tmpfs",
]


def first_diff(a, b):
    for (n1, r1), (n2, r2) in zip(a, b):
        if n1 != n2:
            return "menu differs: %s vs %s" % (n1, n2)
        if r1 != r2:
            return "%s: %r vs %r" % (n1, r1, r2)
    if len(a) != len(b):
        return "different number of answers (%d vs %d)" % (len(a), len(b))
    return None


class Check(HCheck):
    pid = ID
    owned = ("reopen", "clear")
    must_count = ("reopen_compared", "clear_compared", "write_after_reopen_compared", "write_after_clear_compared", "reopen_with_long_stem")

    def spaces(self, tier):
        thorough = tier == "thorough"
        long1 = A + L.long_stem(149)
        ops = [
            al.page(Ax, True),
            al.page(Sx),
            al.page(long1),
            al.links((Ax, Ab), (Ab, Ax), (Ax, Ab)),
            al.crawl((Axy, (Ax, Axy, Bb)),),
            al.pcrawl(2, (Bb, (Bb + b"p:k|", C1 + b"h:c|", Ab)), (Ab, (Bb,))),  # abandoned after 2 steps
            al.create(Ax),
            al.delete(0),
            al.rmprefix(Aw),
            al.rule(A, "path1"),
            al.unrule(A),
            al.REOPEN,
            al.clear("subdomain", {Ax: "path2"}),
            al.clear("domain", {}),
            al.page(Awx),  # three hosts: the domain and subdomain defaults differ on it
        ]
        seq = [al.page(Ax, True), al.page(Awx), al.links((Ax, Ab), (Ab, Ax), (Ax, Ab)), al.create(Ax), al.delete(0), al.REOPEN, al.clear("subdomain", {Ax: "path2"}), al.clear("domain", {})]
        # letter case: the family's 'localhost' alternative only matches h:LOCALHOST because rules
        # are compiled case-insensitively - on every path, also when re-supplied at reopen
        LH = b"s:http|h:LOCALHOST|"
        case = [al.rule(LH, "path1"), al.page(LH + b"p:x|"), al.page(LH + b"p:y|p:z|", True), al.REOPEN, al.unrule(LH), al.clear("never", {LH: "path2"})]
        sr = [al.page(Ax), al.page(Axy, True), al.as_str(al.page(Ab + b"p:k|")), al.rule(Ab, "path2"), al.REOPEN, al.delete(0)]
        # ids chosen by the caller (the API accepts any) larger than anything the index issued:
        # the counter must not depend on whether a reopen happened in between
        cid = [al.addprefix(Az, ("id", 7)), al.page(Bb), al.page(Ax), al.create(C1), al.rmprefix(Az), al.REOPEN, al.clear("domain", {})]
        return [
            Space(Cfg("domain"), cid, 5 if thorough else 4, name="life/caller-chosen-ids", dedup=False),
            Space(Cfg("domain", {A: "path1"}, str_rules=True), sr, 5 if thorough else 4, name="life/str-rule-anchors", dedup=False),
            Space(Cfg("never"), case, 5 if thorough else 4, name="life/letter-case", dedup=False),
            # every sequence over a small alphabet, no merging of byte-equal states
            Space(Cfg("domain"), seq, 5 if thorough else 4, name="life/all-sequences", dedup=False),
            Space(Cfg("domain"), ops, 5 if thorough else 4, name="life/domain"),
            Space(Cfg("never", {A: "path2"}), ops, 4 if thorough else 3, roots=[al.R0, al.R1], name="life/never+path2"),
        ]

    def make_world(self, cfg, hist):
        P = World(cfg)
        T = World(cfg)
        P.companions = [T]
        info = {"kind": None}
        after_life = None
        try:
            for i, op in enumerate(hist):
                last = i == len(hist) - 1
                kind = op[0]
                if kind == "reopen":
                    if last:
                        info["before_obs"] = observe.observation_vector(P)
                        info["before_bytes"] = P.store_bytes()
                    tr = P.apply(op)
                    after_life = "reopen"
                    if last:
                        info["kind"] = "reopen"
                        info["sizes"] = (os.path.getsize(P.t.lru_trie_path), os.path.getsize(P.t.link_store_path))
                elif kind == "clear":
                    tr = P.apply(op)
                    T.close()
                    T = World(Cfg(op[1], dict(op[2]), str_rules=cfg.str_rules, encoding=cfg.encoding))
                    P.companions = [T]
                    after_life = "clear"
                    if last:
                        info["kind"] = "clear"
                else:
                    tr = P.apply(op)
                    trT = T.apply(op)
                    if last:
                        info["kind"] = "write"
                        info["after_life"] = after_life
                        info["trans"] = (tr, trT)
        except Disabled:
            P.close()
            return None, None
        P.twin = T
        P.info = info
        if T.broken and not P.broken:
            P.broken = "twin: " + T.broken
        return P, tr if hist else None

    def check_trans(self, w, tr, ctx):
        info = w.info
        T = w.twin
        kind = info["kind"]
        if kind == "write":
            trP, trT = info["trans"]
            if (trP.exc, trP.nb_created_pages, trP.created) != (trT.exc, trT.nb_created_pages, trT.created):
                ctx.fail(
                    "evolves-differently",
                    "after %s the request %s answers (%r, %r, %r); the index that was never closed answers (%r, %r, %r)"
                    % (info["after_life"] or "creation", _op(tr.op), trP.exc, trP.nb_created_pages, trP.created, trT.exc, trT.nb_created_pages, trT.created),
                )
        if kind == "reopen":
            ctx.count("reopen_compared")
            if any(len(L.stems(l)[-1]) > 74 for l in w.m.named):
                ctx.count("reopen_with_long_stem")
            a, b = info["sizes"]
            if a % 128 or b % 16:
                ctx.fail("partial-block", "after close the files hold %d and %d bytes: not whole numbers of blocks" % (a, b))
            if w.store_bytes() != info["before_bytes"]:
                ctx.fail("reopen-bytes", "the stores differ before close and after reopen")
            d = first_diff(info["before_obs"], observe.observation_vector(w))
            if d:
                ctx.fail("reopen-answers", "an answer differs before close and after reopen: %s" % d)

    def check_state(self, w, ctx):
        info = w.info
        T = w.twin
        kind = info["kind"]
        if kind is None:
            return
        what = {"reopen": "never closed", "clear": "freshly created with the rules given to clear", "write": "never closed / freshly created"}[kind]
        if kind == "clear":
            ctx.count("clear_compared")
        elif kind == "write" and info["after_life"] == "reopen":
            ctx.count("write_after_reopen_compared")
        elif kind == "write" and info["after_life"] == "clear":
            ctx.count("write_after_clear_compared")
        if w.store_bytes() != T.store_bytes():
            ctx.fail("twin-bytes:" + kind, "the stores differ from those of an index %s" % what)
            return
        ov = observe.observation_vector(w)
        ctx.obs(ov)
        d = first_diff(ov, observe.observation_vector(T))
        if d:
            ctx.fail("twin-answers:" + kind, "an answer differs from that of an index %s: %s" % (what, d))
        try:  # guard of the state-equality argument (DESIGN 2.1); skipped if the attribute goes away
            hc = w.t.lru_trie.header.last_webentity_id()
        except AttributeError:
            return
        raw = int.from_bytes(w.store_bytes()[0][:4], "little")
        if hc != raw:
            ctx.fail("header-cache", "cached id counter %d differs from the stored one %d" % (hc, raw))


def _op(op):
    from ..codec import show

    return show(op)


CHECK = Check()


def run(tier, seed, log=print):
    return run_hcheck(CHECK, tier, seed, log)


def replay(doc):
    return replay_hcheck(CHECK, doc)
