"""C14 Queries never modify the index."""
from .. import alpha as al
from .. import lru as L
from .. import observe
from .. import relational as R
from ..alpha import A, Ax, Axy, Ab, Az, Aw, Awx, S, Sx, Bb, C1
from ..engine_h import HCheck, Space
from ..hcommon import run_hcheck, replay_hcheck
from ..world import Cfg

ID = "C14"
LEVEL = "model_checking"
ASSUMPTIONS = [
    "the read-only API is the menu of mc/observe.py (every public query, all switch settings, present/absent/diverging LRUs, known/unknown webentities, right/wrong/absent prefixes, pagination chains with every token resumed, partially drained iterators)",
    "bytes are compared whenever the query returns or raises the library's own error; a query dying with another exception is counted (unclassified_failures) but is not a C14 violation",
    "file back-end: stores are flushed and read back from disk around every call; memory back-end: the bytearrays are compared",
    "bounds: histories up to the depth reported per space, both back-ends",
]


class Check(HCheck):
    pid = ID
    must_count = ("calls_ok", "calls_refused", "calls_on_absent_lru", "pagination_chains")

    def spaces(self, tier):
        thorough = tier == "thorough"
        long1 = A + L.long_stem(149)
        ops = R.rich_ops() + [al.page(long1), al.links((long1, Ax))]
        d = 3 if thorough else 2
        forget = [("reopen_forget",), al.REOPEN, al.rule(Ax, "path2"), al.unrule(A), al.page(Axy), al.page(Ab, True), al.create(Ax), al.clear("domain", {Ab: "path1"})]
        return [
            # states in which the trie carries rule flags the object holds no pattern for
            Space(Cfg("domain", {A: "path1"}), forget, 4 if thorough else 3, roots=[al.R0, al.R1], name="ro/file/rules-not-resupplied"),
            Space(Cfg("domain", {A: "path1"}), ops, d, roots=[al.R0, al.R1, al.R2, al.R4], name="ro/file/domain+path1"),
            Space(Cfg("never"), ops, d, roots=[al.R0, al.R3()], name="ro/file/never"),
            Space(Cfg("domain", {A: "path1"}, backend="memory"), ops, d, roots=[al.R0, al.R2], name="ro/memory/domain+path1"),
        ]

    def check_state(self, w, ctx):
        before = w.store_bytes()
        n = 0
        for name, thunk in observe.menu(w, light=False):
            status, val = observe.call(w, thunk)
            n += 1
            if status == "ok":
                ctx.count("calls_ok")
            elif status == "traph-error":
                ctx.count("calls_refused")
            else:
                ctx.count("unclassified_failures")
            if "p:a|" in name or "h:org" in name or "nope" in name:
                ctx.count("calls_on_absent_lru")
            if name.startswith("paginate"):
                ctx.count("pagination_chains")
            after = w.store_bytes()
            if after != before:
                if status == "failure":
                    ctx.count("modified_by_unclassified_failure")
                    before = after
                    continue
                which = "trie" if after[0] != before[0] else "link"
                ctx.fail("query-modified-store", "read-only request %s (%s) changed the %s store (%d -> %d bytes)" % (name, status, which, len(before[0] if which == "trie" else before[1]), len(after[0] if which == "trie" else after[1])))
                return
        ctx.obs(n)


CHECK = Check()


def run(tier, seed, log=print):
    return run_hcheck(CHECK, tier, seed, log)


def replay(doc):
    return replay_hcheck(CHECK, doc)
