"""C14 Queries never modify the index."""
from .. import alpha as al
from .. import codec
from .. import lru as L
from .. import observe
from .. import relational as R
from ..alpha import A, Ax, Axy, Ab, Az, Aw, Awx, S, Sx, Bb, C1
from ..engine_h import HCheck, Space
from ..hcommon import run_hcheck, replay_hcheck
from ..world import Cfg

ID = "C14"
LEVEL = "model_checking"
ASSUMPTIONS = [
    "the read-only API is the menu of mc/observe.py (every public query, all switch settings, present/absent/diverging LRUs, known/unknown webentities, right/wrong/absent prefixes, pagination chains with every token resumed, partially drained iterators)",
    "bytes are compared whenever the query returns or raises the library's own error; a query dying with another exception is counted (unclassified_failures) but is not a C14 violation",
    "file back-end: stores are flushed and read back from disk around every call; memory back-end: the bytearrays are compared",
    "bounds: histories up to the depth reported per space, both back-ends",
]


class Check(HCheck):
    pid = ID
    must_count = ("calls_ok", "calls_refused", "calls_on_absent_lru", "pagination_chains")

    def spaces(self, tier):
        thorough = tier == "thorough"
        long1 = A + L.long_stem(149)
        ops = R.rich_ops() + [al.page(long1), al.links((long1, Ax))]
        d = 3 if thorough else 2
        forget = [("reopen_forget",), al.REOPEN, al.rule(Ax, "path2"), al.unrule(A), al.page(Axy), al.page(Ab, True), al.create(Ax), al.clear("domain", {Ab: "path1"})]
        return [
            # states in which the trie carries rule flags the object holds no pattern for
            Space(Cfg("domain", {A: "path1"}), forget, 4 if thorough else 3, roots=[al.R0, al.R1], name="ro/file/rules-not-resupplied"),
            Space(Cfg("domain", {A: "path1"}), ops, d, roots=[al.R0, al.R1, al.R2, al.R4], name="ro/file/domain+path1"),
            Space(Cfg("never"), ops, d, roots=[al.R0, al.R3()], name="ro/file/never"),
            Space(Cfg("domain", {A: "path1"}, backend="memory"), ops, d, roots=[al.R0, al.R2], name="ro/memory/domain+path1"),
        ]

    def check_state(self, w, ctx):
        before = w.store_bytes()
        n = 0
        for name, thunk in observe.menu(w, light=False):
            status, val = observe.call(w, thunk)
            n += 1
            if status == "ok":
                ctx.count("calls_ok")
            elif status == "traph-error":
                ctx.count("calls_refused")
            else:
                ctx.count("unclassified_failures")
            if "p:a|" in name or "h:org" in name or "nope" in name:
                ctx.count("calls_on_absent_lru")
            if name.startswith("paginate"):
                ctx.count("pagination_chains")
            after = w.store_bytes()
            if after != before:
                if status == "failure":
                    ctx.count("modified_by_unclassified_failure")
                    before = after
                    continue
                which = "trie" if after[0] != before[0] else "link"
                ctx.fail("query-modified-store", "read-only request %s (%s) changed the %s store (%d -> %d bytes)" % (name, status, which, len(before[0] if which == "trie" else before[1]), len(after[0] if which == "trie" else after[1])))
                return
        # absent LRUs whose first missing stem needs more than one block (a lookup that compares
        # heads first), at levels that already hold siblings, at the root level, and sharing the
        # 74-byte head of a stem that is present
        t = w.t
        longs = [A + L.long_stem(75, b"q"), Ax + L.long_stem(149, b"q"), b"s:" + b"z" * 100 + b"|", A + L.long_stem(149)[:-3] + b"zz|", A + L.long_stem(149) + L.long_stem(80, b"k")]
        for l in longs:
            for name, thunk in (
                ("retrieve_webentity", lambda: t.retrieve_webentity(l)),
                ("retrieve_prefix", lambda: t.retrieve_prefix(l)),
                ("get_potential_prefix", lambda: t.get_potential_prefix(l)),
                ("get_webentity_by_prefix", lambda: t.get_webentity_by_prefix(l)),
                ("get_page_links", lambda: t.get_page_links(l)),
                ("get_page_degree", lambda: t.get_page_degree(l)),
                ("get_webentity_pages", lambda: t.get_webentity_pages(1, [l])),
                ("get_webentity_child_webentities", lambda: t.get_webentity_child_webentities(1, [l])),
                ("paginate_webentity_pages", lambda: t.paginate_webentity_pages(1, [l], page_count=1)),
                ("paginate_webentity_pagelinks", lambda: t.paginate_webentity_pagelinks(1, [l], source_page_count=1)),
            ):
                status, val = observe.call(w, thunk)
                n += 1
                ctx.count("calls_on_absent_long_lru")
                after = w.store_bytes()
                if after != before:
                    if status == "failure":
                        ctx.count("modified_by_unclassified_failure")
                        before = after
                        continue
                    ctx.fail("query-modified-store", "read-only request %s(%s) (%s) changed a store (trie %d -> %d bytes, links %d -> %d bytes)" % (name, L.show(l), status, len(before[0]), len(after[0]), len(before[1]), len(after[1])))
                    return
        ctx.obs(n)


CHECK = Check()


# ------------------------------------------------------------------------------ part F
# "every reachable index state" includes what a reopen finds after a torn write history
# (C18's cuts): on every cut that opens, the read-only menu must leave both files untouched.
def _torn_histories(tier):
    l75, l149, l223 = (A + L.long_stem(n) for n in (75, 149, 223))
    ops = [al.page(l149, True), al.page(l75), al.page(l223 + b"p:k|"), al.links((l75, Ax), (Ax, l149)), al.page(Ax, True), al.create(l75)]
    import itertools

    d = 2
    return [h for n in range(1, d + 1) for h in itertools.product(ops, repeat=n)]


def _torn_work(hist):
    import os
    import types
    from .. import engine_f, env

    ns = env.load()
    cfg = Cfg("domain")
    rec = engine_f.record(cfg, hist)
    if rec is None:
        return hist, 0, None
    log_, marks, final, rules_after, default = rec
    folder = env.fresh_folder("torn")
    n_checked = 0
    try:
        lo = marks[-2]
        for n in range(lo, len(log_) + 1):
            engine_f.materialise(log_, n, folder)
            try:
                t = ns["Traph"](folder=folder, default_webentity_creation_rule=L.RULES[default], webentity_creation_rules={})
            except Exception:
                continue
            w = types.SimpleNamespace(t=t, TraphException=ns["TraphException"])
            try:
                def bytes_now():
                    t.lru_trie_file.flush()
                    t.link_store_file.flush()
                    return open(t.lru_trie_path, "rb").read(), open(t.link_store_path, "rb").read()

                before = bytes_now()
                for name, thunk in observe.menu(w, light=True):
                    status, _ = observe.call(w, thunk)
                    after = bytes_now()
                    n_checked += 1
                    if after != before:
                        if status == "failure":
                            before = after
                            continue
                        return hist, n_checked, ("query-modified-store-after-cut", "on the index reopened after write %d of this history, the read-only request %s (%s) changed the %s store" % (n, name, status, "trie" if after[0] != before[0] else "link"), n)
            finally:
                t.close()
    finally:
        env.wipe(folder)
    return hist, n_checked, None


def run(tier, seed, log=print):
    import multiprocessing
    from .. import guard

    out = run_hcheck(CHECK, tier, seed, log)
    if out.violations:
        return out
    hists = _torn_histories(tier)
    total = 0
    with multiprocessing.get_context("fork").Pool(16) as pool:
        results = guard.imap(pool, _torn_work, hists)
        while True:
            try:
                hist, n, bad = next(results)
            except StopIteration:
                break
            except guard.Stuck as st:
                out.harness_errors.append("part F: a torn-history task did not come back: %r" % ([codec.show(o) for o in st.task],))
                break
            total += n
            if bad:
                tag, msg, cut = bad
                out.violations.append({"oracle": tag, "message": msg + "   [history: %s]" % " ; ".join(codec.show(o) for o in hist), "replay": {"engine": "F", "tier": tier, "history": codec.enc(hist), "history_text": [codec.show(o) for o in hist]}})
                break
    log("  [F] read-only menu on reopened torn states: %d calls bracketed by a byte comparison, %d histories" % (total, len(hists)))
    out.coverage["calls_on_reopened_torn_states"] = total
    out.coverage["traces_validated_against_impl"] += len(hists)
    return out


def replay(doc):
    if doc.get("engine") == "F":
        hist, n, bad = _torn_work(codec.dec(doc["history"]))
        return [(bad[0], bad[1], None)] if bad else []
    return replay_hcheck(CHECK, doc)
