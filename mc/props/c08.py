"""C08 Per-webentity link queries agree with page links and resolution."""
import itertools

from .. import alpha as al
from .. import lru as L
from .. import relational as R
from ..engine_h import HCheck
from ..hcommon import run_hcheck, replay_hcheck

ID = "C08"
LEVEL = "model_checking"
ASSUMPTIONS = [
    "relational oracle: ground truth = get_page_links + retrieve_webentity of the same state; 'source page belongs to W' is read through get_webentity_pages (C05 ties it to resolution)",
    "link ends that resolve to no webentity show up as None in the cited/citing sets; None is discarded on both sides",
    "bounds: histories up to the depth reported per space; all 7 non-empty switch settings; three orders of each prefix list (sorted with all 7 switch settings; reversed and rotated with all switches on)",
]
SWITCHES = [s for s in itertools.product((False, True), repeat=3) if any(s)]  # inbound, internal, outbound


class Check(HCheck):
    pid = ID
    must_count = ("pagelinks_nonempty", "inbound_nonempty", "internal_nonempty", "outbound_nonempty", "cited_nonempty", "citing_nonempty", "all_false_refused")

    def spaces(self, tier):
        sp = R.rich_spaces(tier)
        if tier == "thorough":
            # one query touching 2 100 distinct parent directories, link ends in the earliest ones
            from ..engine_h import Space
            from ..world import Cfg

            dirs = [al.A + b"p:d%04d|" % i for i in range(2100)]
            big = al.crawl(*[(d + b"p:x|", (dirs[(i * 7) % 2100] + b"p:y|", dirs[i % 5] + b"p:x|")) for i, d in enumerate(dirs)])
            sp.insert(0, Space(Cfg("domain"), [big, al.create(dirs[3]), al.links((dirs[0] + b"p:x|", dirs[2099] + b"p:x|"))], 2, name="sizes/2100-directories", slow=6))
        return sp

    def check_state(self, w, ctx):
        t = w.t
        TE = w.TraphException
        g = R.Ground(w)
        obs = []
        for wid in g.weids():
            pl = g.prefixes[wid]
            # every switch setting on the sorted order; the other orders (a rotation and the
            # reverse are enough to move every prefix to the first and last place) with all
            # switches on
            orders = [tuple(o) for o in al.few_orders(pl)]
            for oi, order in enumerate(orders):
                order = list(order)
                try:
                    mine = set(d["lru"] for d in t.get_webentity_pages(wid, order))
                except Exception as e:
                    ctx.count("membership_query_failed")
                    return
                inW = lambda p: g.res.get(p) == wid  # noqa: E731
                for inb, inte, outb in (SWITCHES if oi == 0 else [(True, True, True)]):
                    exp = []
                    for (s, tg), wt in g.edges.items():
                        if s in mine:
                            if inW(tg):
                                if inte:
                                    exp.append((s, tg, wt))
                            elif outb:
                                exp.append((s, tg, wt))
                        elif inb and tg in mine:
                            exp.append((s, tg, wt))
                    try:
                        got = [tuple(x) for x in t.get_webentity_pagelinks(wid, order, include_inbound=inb, include_internal=inte, include_outbound=outb)]
                    except Exception as e:
                        ctx.fail("query-failed", "page links of webentity %r failed: %s: %s" % (wid, type(e).__name__, e))
                        return
                    if exp:
                        ctx.count("pagelinks_nonempty")
                        if inb and not inte and not outb:
                            ctx.count("inbound_nonempty")
                        if inte and not inb and not outb:
                            ctx.count("internal_nonempty")
                        if outb and not inb and not inte:
                            ctx.count("outbound_nonempty")
                    if sorted(got) != sorted(exp):
                        ctx.fail("pagelinks", "page links of webentity %r (prefixes %s; inbound=%s internal=%s outbound=%s) are %s; page links and resolution give %s" % (wid, _pl(order), inb, inte, outb, _sh(sorted(got)), _sh(sorted(exp))))
                        return
                if oi == 0:
                    try:
                        sorder = [p.decode("utf-8") for p in order]
                    except UnicodeDecodeError:
                        sorder = None
                    if sorder is not None:
                        try:
                            gs = sorted(tuple(x) for x in t.get_webentity_pagelinks(wid, sorder, include_inbound=True, include_internal=True, include_outbound=True))
                            gb = sorted(tuple(x) for x in t.get_webentity_pagelinks(wid, order, include_inbound=True, include_internal=True, include_outbound=True))
                            so, si = set(t.get_webentity_outlinks(wid, sorder)), set(t.get_webentity_inlinks(wid, sorder))
                        except Exception as e:
                            ctx.fail("str-prefixes", "per-webentity link queries of %r with the prefixes handed over as str failed: %s: %s" % (wid, type(e).__name__, e))
                            return
                        if gs != gb or so != set(t.get_webentity_outlinks(wid, order)) or si != set(t.get_webentity_inlinks(wid, order)):
                            ctx.fail("str-prefixes", "page links of webentity %r with the prefixes handed over as str are %s; as bytes %s" % (wid, _sh(gs), _sh(gb)))
                            return
                try:
                    t.get_webentity_pagelinks(wid, order, include_inbound=False, include_internal=False, include_outbound=False)
                    ctx.fail("all-false-accepted", "page links with all three switches off were not refused")
                except TE:
                    ctx.count("all_false_refused")
                cited = {g.res.get(tg) for (s, tg) in g.edges if s in mine} - {None}
                citing = {g.res.get(s) for (s, tg) in g.edges if tg in mine} - {None}
                go = set(t.get_webentity_outlinks(wid, order))
                gi = set(t.get_webentity_inlinks(wid, order))
                if cited:
                    ctx.count("cited_nonempty")
                if citing:
                    ctx.count("citing_nonempty")
                if go - {None} != cited:
                    ctx.fail("cited-webentities", "webentities cited by %r: %r, expected %r" % (wid, sorted(go - {None}), sorted(cited)))
                    return
                if gi - {None} != citing:
                    ctx.fail("citing-webentities", "webentities citing %r: %r, expected %r" % (wid, sorted(gi - {None}), sorted(citing)))
                    return
                od, idg, dg = t.get_webentity_outdegree(wid, order), t.get_webentity_indegree(wid, order), t.get_webentity_degree(wid, order)
                if od != len(go) or idg != len(gi) or dg != od + idg:
                    ctx.fail("degrees", "degrees of webentity %r (%r, %r, %r) are not the sizes of its cited/citing sets (%d, %d)" % (wid, od, idg, dg, len(go), len(gi)))
                    return
            obs.append((wid, sorted(cited), sorted(citing)))
        ctx.obs(obs)


def _pl(order):
    return "[" + ", ".join(L.show(p) for p in order) + "]"


def _sh(items):
    return "[" + ", ".join("(%s->%s x%s)" % (L.show(a), L.show(b), c) for a, b, c in items[:8]) + ("..." if len(items) > 8 else "") + "]"


CHECK = Check()


def run(tier, seed, log=print):
    return run_hcheck(CHECK, tier, seed, log)


def replay(doc):
    return replay_hcheck(CHECK, doc)
