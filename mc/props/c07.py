"""C07 Webentity network equals the page links aggregated through resolution."""
import collections

from .. import lru as L
from .. import relational as R
from ..engine_h import HCheck
from ..hcommon import run_hcheck, replay_hcheck

ID = "C07"
LEVEL = "model_checking"
ASSUMPTIONS = [
    "relational oracle: ground truth = get_page_links + retrieve_webentity + pages_iter of the same state (tied to the reference model by C01/C03/C04)",
    "the fast variant mixes pages_crawled/pages_uncrawled tallies into the same counters: weights are compared with those keys stripped, tallies separately",
    "bounds: histories up to the depth reported per space",
]


def strip(graph):
    out = {}
    for a, c in graph.items():
        d = {b: v for b, v in c.items() if not isinstance(b, str) and v}
        if d:
            out[a] = d
    return out


class Check(HCheck):
    pid = ID
    must_count = ("network_nonempty", "auto_link_seen", "dropped_unresolved_end", "tallies_compared", "cross_webentity_weight_gt1")

    def spaces(self, tier):
        sp = R.rich_spaces(tier)
        if tier == "thorough":
            # a size the small alphabets never reach: 10 400 link-bearing pages of one webentity
            # pointing to 7 pages of another that are visited later
            from .. import alpha as al
            from ..engine_h import Space
            from ..world import Cfg

            src = [b"s:http|h:com|h:aaa|p:%05d|" % i for i in range(10400)]
            tgt = [b"s:http|h:com|h:zzz|p:%d|" % i for i in range(7)]
            big = al.crawl(*[(s_, (tgt[i % 7], tgt[(i + 1) % 7]) if i % 13 == 0 else (tgt[i % 7],)) for i, s_ in enumerate(src)])
            sp.append(Space(Cfg("domain"), [big, al.links((tgt[0], src[0]))], 2, name="sizes/10k-pages", slow=12))
        return sp

    def check_state(self, w, ctx):
        t = w.t
        g = R.Ground(w)
        nets = {}
        for out in (True, False):
            for auto in (True, False):
                exp = collections.defaultdict(collections.Counter)
                for (s, tg), wt in g.edges.items():
                    a, b = g.res.get(s), g.res.get(tg)
                    if a is None or b is None:
                        ctx.count("dropped_unresolved_end")
                        continue
                    if a == b:
                        ctx.count("auto_link_seen")
                        if not auto:
                            continue
                    elif wt > 1:
                        ctx.count("cross_webentity_weight_gt1")
                    if out:
                        exp[a][b] += wt
                    else:
                        exp[b][a] += wt
                exp = {a: dict(c) for a, c in exp.items() if c}
                if exp:
                    ctx.count("network_nonempty")
                for name in ("get_webentities_links", "get_webentities_links_slow"):
                    try:
                        raw = getattr(t, name)(out=out, include_auto=auto)
                    except Exception as e:
                        ctx.fail("query-failed", "%s(out=%s, include_auto=%s) failed: %s: %s" % (name, out, auto, type(e).__name__, e))
                        return
                    got = strip(raw)
                    if got != exp:
                        ctx.fail("network-weights" if name.endswith("links") else "network-weights-slow", "%s(out=%s, include_auto=%s) = %r; page links aggregated through resolution give %r" % (name, out, auto, got, exp))
                        return
                    if name == "get_webentities_links":
                        nets[(out, auto)] = (got, raw)
        ctx.obs(sorted((k, sorted((a, sorted(c.items())) for a, c in v[0].items())) for k, v in nets.items()))
        for auto in (True, False):
            o, i = nets[(True, auto)][0], nets[(False, auto)][0]
            tr = collections.defaultdict(dict)
            for a, c in o.items():
                for b, v in c.items():
                    tr[b][a] = v
            if dict(tr) != i:
                ctx.fail("network-transpose", "inbound network (include_auto=%s) %r is not the transpose of the outbound one %r" % (auto, i, o))
            if strip(t.get_webentities_inlinks(include_auto=auto)) != i or strip(t.get_webentities_outlinks(include_auto=auto)) != o:
                ctx.fail("network-alias", "get_webentities_inlinks/outlinks disagree with get_webentities_links (include_auto=%s)" % auto)
            for alt in (0, None):
                if strip(t.get_webentities_links(out=alt, include_auto=auto)) != i or strip(t.get_webentities_links_slow(out=alt, include_auto=auto)) != i:
                    ctx.fail("network-direction-arg", "get_webentities_links[_slow](out=%r) differs from the inbound network (include_auto=%s)" % (alt, auto))
            from traph.traph_iterator_state import run_iterator
            if strip(run_iterator(t.get_webentities_inlinks_iter(include_auto=auto))) != i or strip(run_iterator(t.get_webentities_outlinks_iter(include_auto=auto))) != o:
                ctx.fail("network-alias-iter", "get_webentities_inlinks_iter/outlinks_iter disagree with get_webentities_links (include_auto=%s)" % auto)
        # tallies (fast variant only)
        exp_t = collections.defaultdict(lambda: [0, 0])
        for p, c in g.pages:
            if g.res[p] is not None:
                exp_t[g.res[p]][0 if c else 1] += 1
        for key, (_, raw) in nets.items():
            for wid in set(exp_t) | set(raw):
                c = raw.get(wid, {})
                gt = [c.get("pages_crawled", 0), c.get("pages_uncrawled", 0)]
                ctx.count("tallies_compared")
                if gt != exp_t.get(wid, [0, 0]) if wid in exp_t else gt != [0, 0]:
                    ctx.fail("page-tallies", "webentity %r: crawled/uncrawled tallies %r, pages resolving to it give %r (out=%s, include_auto=%s)" % (wid, gt, exp_t.get(wid, [0, 0]), key[0], key[1]))
                    return


CHECK = Check()


def run(tier, seed, log=print):
    return run_hcheck(CHECK, tier, seed, log)


def replay(doc):
    return replay_hcheck(CHECK, doc)
