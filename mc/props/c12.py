"""C12 Webentity ids are fresh, increasing and survive restarts."""
from .. import alpha as al
from .. import lru as L
from ..alpha import A, Ax, Axy, Ab, Az, Aw, Awx, S, Sx, Bb, C1
from ..engine_h import HCheck, Space
from ..hcommon import run_hcheck, replay_hcheck
from ..world import Cfg

ID = "C12"
LEVEL = "model_checking"
ASSUMPTIONS = [
    "bounds: histories up to the depth reported per space over creations, deletions, automatic creations, rule installations, close/reopen and clear",
    "ids handed in by the caller are not constrained; a refused request may or may not consume an id (only freshness is asserted)",
    "state key includes the number of reopen/clear operations, so that histories differing only by a reopen are explored separately",
]


class Check(HCheck):
    pid = ID
    owned = ("create", "page", "rule", "reopen", "clear", "delete", "pcrawl")
    must_count = ("ids_checked", "id_after_reopen", "id_after_delete", "id_after_clear", "several_ids_in_one_report", "multi_prefix_creation")

    def spaces(self, tier):
        thorough = tier == "thorough"
        ops = [
            al.create(Ax),
            al.create(Axy, Ab),
            al.create(Ax, Bb),  # refused when Ax is attached
            al.delete(0),
            al.page(A),
            al.page(Bb),
            al.links((Sx, Az), (C1 + b"h:c|", Az)),
            al.rule(A, "path1"),
            al.pcrawl(2, (Bb, (Bb + b"p:k|", C1 + b"h:c|", Ab)), (Ab, (Bb,))),  # abandoned after 2 steps
            al.REOPEN,
            al.clear("domain", {A: "path1"}),
            al.clear("subdomain", {}),  # no anchored rule: nothing is written besides the headers
        ]
        # every sequence over a small alphabet (no merging of byte-equal states: what the object
        # remembers in RAM about ids must not matter, and the state key cannot see it)
        seq = [al.create(Ax), al.create(Axy, Ab), al.delete(0), al.page(Bb), al.clear("subdomain", {}), al.clear("domain", {A: "path1"}), al.REOPEN, ops[8]]
        # counts: n creations, then close / reopen, then one more creation (a counter persisted in
        # strides, a width boundary of the header field): n around 64, 128, 256
        counts = [(("create_many", Bb, n),) for n in ((63, 64, 65, 66, 127, 128, 129, 255, 256, 257) if not thorough else tuple(range(1, 140)) + (254, 255, 256, 257, 258, 511, 512, 513))]
        return [
            Space(Cfg("domain"), [al.REOPEN, al.create(Ax), al.page(A + b"p:q|"), al.delete(0)], 3, roots=counts, name="ids/counts-then-reopen", dedup=False),
            Space(Cfg("domain"), seq, 6 if thorough else 5, name="ids/all-sequences", dedup=False),
            Space(Cfg("domain"), ops, 6 if thorough else 5, name="ids/domain"),
            Space(Cfg("subdomain", {Ax: "path2"}), ops + [al.page(Axy), al.page(Ax + b"p:k|p:l|")], 5 if thorough else 4, roots=[al.R0, al.R1], name="ids/subdomain+path2"),
        ]

    def make_world(self, cfg, hist):
        from ..world import World, Disabled

        w = World(cfg)
        tr = None
        flags = {"reopen": False, "delete": False, "clear": False}
        try:
            for op in hist:
                tr = w.apply(op)
                if op[0] in flags and tr.exc is None:
                    flags[op[0]] = True
                    if op[0] == "clear":
                        flags["reopen"] = flags["delete"] = False
        except Disabled:
            w.close()
            return None, None
        w.flags = flags
        return w, tr

    def check_trans(self, w, tr, ctx):
        if not tr.created:
            return
        ids = sorted(k for k in tr.created)
        if None in tr.created or any(not isinstance(k, int) for k in tr.created):
            ctx.fail("id-missing", "a creation is reported without an id: %r" % (tr.created,))
            return
        if len(ids) > 1:
            ctx.count("several_ids_in_one_report")
        floor = 0 if tr.op[0] == "clear" else tr.max_id_before
        earlier = set() if tr.op[0] == "clear" else set(tr.issued_before)
        for wid in ids:
            ctx.count("ids_checked")
            if w.flags["reopen"]:
                ctx.count("id_after_reopen")
            if w.flags["delete"]:
                ctx.count("id_after_delete")
            if w.flags["clear"]:
                ctx.count("id_after_clear")
            if wid in earlier or wid <= floor:
                ctx.fail("id-not-fresh", "request %s issued id %r although id %r had been issued before (ids so far: %r)" % (_op(tr.op), wid, floor, list(tr.issued_before)))
                return
            if len(tr.created[wid]) > 1:
                ctx.count("multi_prefix_creation")
        # every prefix the request attached carries the id it reports
        owner = {lru: node.webentity() for node, lru in w.t.webentity_prefix_iter()}
        for wid, pl in tr.created.items():
            for p in pl:
                if owner.get(p) != wid:
                    ctx.fail("id-not-shared", "prefix %s reported as attached to new webentity %r carries %r" % (L.show(p), wid, owner.get(p)))
                    return

    def check_state(self, w, ctx):
        ctx.obs((w.m.issued, w.m.max_id))


def _op(op):
    from ..codec import show

    return show(op)


CHECK = Check()


def run(tier, seed, log=print):
    return run_hcheck(CHECK, tier, seed, log)


def replay(doc):
    return replay_hcheck(CHECK, doc)
