"""C10 Pagelink pagination is complete, duplicate-free and resumable."""
import collections
import itertools

from .. import alpha as al
from .. import lru as L
from .. import relational as R
from ..alpha import A, Ax, Axy, Ab, Az, Aw, Awx, S, Sx, Sw, Bb, C1
from ..engine_h import HCheck, Space
from ..hcommon import run_hcheck, replay_hcheck
from ..world import Cfg

ID = "C10"
LEVEL = "model_checking"
ASSUMPTIONS = [
    "oracle: the unpaginated get_webentity_pagelinks with the same switches on the same state (tied to page links and resolution by C08)",
    "'link-bearing' is relative to the switches: a source page counts when at least one of its links passes them",
    "bounds: histories up to the depth reported per space; source-page counts 1..3 (thorough 1..4); switch settings internal / outbound / both; up to 6 orders of each prefix list; every token of every chain is fed back",
]
SW = ((True, False), (False, True), (True, True))


class Check(HCheck):
    pid = ID
    must_count = ("chains", "multi_answer_chains", "linkless_page_between_answers", "prefix_without_linkbearing_page", "filtered_out_sources", "tokens_resumed")

    def spaces(self, tier):
        thorough = tier == "thorough"
        Sk = S + b"p:k|"
        ops = [
            al.page(Ab),
            al.page(A + b"p:c|"),  # link-less page between link-bearing ones
            al.page(Sx),
            al.page(Awx),
            al.page(Sw + b"p:q|"),
            al.links((Ab, Sx), (Sx, Ab)),
            al.links((Az, Az), (Az, Bb)),
            al.links((Awx, Bb), (Awx, Ab), (Awx, Ab)),
            al.links((A, Az), (Sk, A)),
            al.links((Axy, Bb),),  # a source whose links all fail 'internal'
            al.crawl((Ax, (Axy, Sx, Bb)), (Bb, (Ax,))),
            al.create(Ax),
            al.rmprefix(Aw),
            al.delete(0),
            # link-bearing sources with 3-block stems, reached by a sibling hop when shorter
            # siblings were inserted first (bases R4 / R2) and by a child hop otherwise
            al.links((A + L.long_stem(149), Ax), (Ab, A + L.long_stem(149)), (A + L.long_stem(150, b"\xff"), Ab)),
        ]
        d = 4 if thorough else 3
        return [
            Space(Cfg("domain"), ops, d, roots=[al.R0, al.R4], name="plinks/domain"),
            Space(Cfg("subdomain", {A: "path1"}), ops, d - 1, roots=[al.R2], name="plinks/subdomain+path1"),
            Space(Cfg("never"), [al.links((Bb + b"p:w11|p:a|", Bb + b"p:w10|p:b|")), al.page(Bb + b"p:w10|p:c|")], 1, roots=[al.many_prefix_root(12)], name="plinks/12-prefixes"),
            # 40 siblings inserted in ascending order (a right spine): link-bearing sources whose
            # token path has 30-40 steps
            Space(Cfg("domain"), [al.links((A + b"p:s038|", A + b"p:s002|")), al.page(A + b"p:s039|p:k|")], 1, roots=[(al.page(A), al.pages(tuple(A + b"p:s%03d|" % i for i in range(40)), False), al.links((A + b"p:s030|", A), (A + b"p:s035|", A + b"p:s001|"), (A + b"p:s039|", Ax), (A + b"p:s031|", A + b"p:s030|")))], name="plinks/deep-right-spine"),
            # every route that changes the prefix map, between two paginations
            Space(Cfg("domain"), al.prefix_edit_ops() + [al.OBS, al.links((Axy, Ax), (Ax, Axy)), al.rule(A, "path1")], 3 if thorough else 2, roots=[al.R2, al.R4], name="plinks/edits"),
            # two corpora around clear / reopen with the check's own queries in between (whatever a
            # pagination remembers on the object must not outlive clear()): every sequence, no merging
            Space(Cfg("domain"), R.lifecycle_ops(), 5 if thorough else 4, roots=[al.R0], name="plinks/lifecycle", dedup=False),
        ]

    def check_state(self, w, ctx):
        t = w.t
        g = R.Ground(w)
        ks = (1, 2, 3, 4) if getattr(self, "tier", "quick") == "thorough" else (1, 2, 3)
        obs = []
        for wid in g.weids():
            pl = g.prefixes[wid]
            for order in al.few_orders(pl):
                for inte, outb in SW:
                    try:
                        ref = [tuple(x) for x in t.get_webentity_pagelinks(wid, order, include_inbound=False, include_internal=inte, include_outbound=outb)]
                    except Exception:
                        ctx.count("reference_query_failed")
                        continue
                    refc = collections.Counter(ref)
                    bearing = []
                    for s, _, _ in ref:
                        if s not in bearing:
                            bearing.append(s)
                    all_sources = {s for (s, _t) in g.edges}
                    if any(s not in bearing and g.res.get(s) == wid for s in all_sources):
                        ctx.count("filtered_out_sources")
                    members = g.members.get(wid, [])
                    if len(bearing) >= 2 and any(p not in bearing for p in members):
                        ctx.count("linkless_page_between_answers")
                    if len(order) > 1 and any(not any(L.is_stem_prefix(q, s) and w.m.resolve(s) == q for s in bearing) for q in order):
                        ctx.count("prefix_without_linkbearing_page")
                    for k in ks + (None,):
                        ctx.count("chains")
                        tok = None
                        acc = []
                        answers = 0
                        while True:
                            try:
                                r = t.paginate_webentity_pagelinks(wid, order, include_internal=inte, include_outbound=outb, source_page_count=k, pagination_token=tok)
                            except Exception as e:
                                ctx.fail("token-not-resumable" if tok else "query-failed", "page links of webentity %r (prefixes %s, internal=%s outbound=%s, %r sources per answer): call with token %r failed: %s: %s" % (wid, _pl(order), inte, outb, k, tok, type(e).__name__, e))
                                return
                            answers += 1
                            links = [tuple(x) for x in r["pagelinks"]]
                            acc += links
                            srcs = []
                            for s, _, _ in links:
                                if s not in srcs:
                                    srcs.append(s)
                            if r.get("count_pagelinks") != len(links):
                                ctx.fail("count-pagelinks", "answer reports %r links and holds %d" % (r.get("count_pagelinks"), len(links)))
                                return
                            if r.get("count_sourcepages") != len(srcs):
                                ctx.fail("count-sourcepages", "answer reports %r source pages and holds links of %d" % (r.get("count_sourcepages"), len(srcs)))
                                return
                            if r["done"]:
                                if "token" in r and r["token"]:
                                    ctx.fail("final-has-token", "final answer carries a token")
                                break
                            if k is None:
                                ctx.fail("unbounded-not-done", "an unbounded request returned a non-final answer")
                                return
                            if len(srcs) != k:
                                ctx.fail("non-final-size", "non-final answer covers %d link-bearing source pages, %d requested (webentity %r, prefixes %s, internal=%s outbound=%s)" % (len(srcs), k, wid, _pl(order), inte, outb))
                                return
                            tok = r.get("token")
                            if not tok:
                                ctx.fail("non-final-no-token", "non-final answer without token")
                                return
                            ctx.count("tokens_resumed")
                            if answers > 50:
                                ctx.fail("chain-does-not-end", "pagination chain exceeds 50 answers")
                                return
                        if answers > 1:
                            ctx.count("multi_answer_chains")
                        if collections.Counter(acc) != refc:
                            missing = list((refc - collections.Counter(acc)).elements())
                            extra = list((collections.Counter(acc) - refc).elements())
                            ctx.fail("union-differs", "paging webentity %r (prefixes %s, internal=%s outbound=%s) by %r sources: missing %s, repeated/extra %s" % (wid, _pl(order), inte, outb, k, _sh(missing), _sh(extra)))
                            return
            # two paginations of the same webentity with different switches, advanced in turns
            order = list(pl)
            refs, toks, accs, done = {}, {}, {}, {}
            for sw in SW:
                try:
                    refs[sw] = collections.Counter(tuple(x) for x in t.get_webentity_pagelinks(wid, order, include_inbound=False, include_internal=sw[0], include_outbound=sw[1]))
                except Exception:
                    refs = None
                    break
                toks[sw], accs[sw], done[sw] = None, [], False
            rounds = 0
            while refs is not None and not all(done.values()) and rounds < 40:
                rounds += 1
                for sw in SW:
                    if done[sw]:
                        continue
                    try:
                        r = t.paginate_webentity_pagelinks(wid, order, include_internal=sw[0], include_outbound=sw[1], source_page_count=1, pagination_token=toks[sw])
                    except Exception as e:
                        ctx.fail("token-not-resumable", "two paginations of webentity %r advanced in turns: the one with internal=%s outbound=%s failed on token %r: %s: %s" % (wid, sw[0], sw[1], toks[sw], type(e).__name__, e))
                        return
                    accs[sw] += [tuple(x) for x in r["pagelinks"]]
                    done[sw] = r["done"]
                    toks[sw] = r.get("token")
            if refs is not None:
                ctx.count("alternating_chains")
                for sw in SW:
                    if collections.Counter(accs[sw]) != refs[sw]:
                        ctx.fail("union-differs-alternating", "two paginations of webentity %r advanced in turns: the one with internal=%s outbound=%s returned %s, expected %s" % (wid, sw[0], sw[1], _sh(sorted(accs[sw])), _sh(sorted(refs[sw].elements()))))
                        return
            obs.append((wid, len(g.members.get(wid, []))))
        ctx.obs(obs)


def _pl(order):
    return "[" + ", ".join(L.show(p) for p in order) + "]"


def _sh(items):
    return "[" + ", ".join("(%s->%s x%s)" % (L.show(a), L.show(b), c) for a, b, c in items[:6]) + "]"


CHECK = Check()


def run(tier, seed, log=print):
    CHECK.tier = tier
    return run_hcheck(CHECK, tier, seed, log)


def replay(doc):
    CHECK.tier = doc.get("tier", "quick")
    return replay_hcheck(CHECK, doc)
