add("C01", "H", "explicit-state BFS over API histories of the real Traph (bounded depth, exhaustive), lock-step reference model",
    "Every history up to the stated depth over a colliding alphabet (pages, batches, link/crawl batches, webentity and rule edits, all insertion orders of short, odd-byte and multi-block stems, str arguments), every crawl batch with <=2 sources x <=2 targets and every link batch of <=2-3 links over 4 pages from prepared states, and size letters (300 targets, 600 citations, 40 ascending siblings, stems up to 2 200 bytes) is executed on the real index; page enumeration, counts and write reports are compared with a dict model in every state and on every transition.",
    "DESIGN.md 6/C01")

add("C03", "H", "explicit-state BFS over API histories of the real Traph (bounded depth, exhaustive), lock-step reference model",
    "Every history up to the stated depth over all link/crawl batch shapes (repeated, self, both directions, source-and-target, empty target lists, long stems) interleaved with page/webentity/rule writes; in every state the links of every page under all 8 switch settings, the degrees, both link enumerations, the global count and the raw link store are compared with a Counter of submissions. Also: every link batch of <=3 links and every crawl batch of <=2x2 over a few pages, size letters (300 targets, 600 citations, 300 repetitions), arguments as str / one-shot iterators / aliased keys, a lifecycle space without merging, and the two enumerations advanced in turns with a query in between.",
    "DESIGN.md 6/C03")

add("C02", "H", "explicit-state BFS over insertion histories of the real Traph (bounded depth, exhaustive) + independent raw decoder of the trie file",
    "Every insertion history up to the stated depth over multi-block stems (lengths around every 74-byte multiple, low/high byte values, two levels, all sibling insertion orders) and short stems; in every state top-down lookup, bottom-up reconstruction and full traversal are compared on every named stem-prefix and on near-miss probes, and an independent decoder checks the ternary-search-tree invariants on the raw bytes. Also: every one of the 255 non-separator byte values (short and inside a multi-block stem), stems up to 20 000 bytes, every stem-length shape of up to three stems inserted in one go, a lifecycle space (observe / clear / reopen, every sequence, no merging) and the second copy of the top-down search.",
    "DESIGN.md 6/C02")

add("C19", "H", "explicit-state BFS over API histories of the real Traph (bounded depth, exhaustive), block-count formula + independent raw decoder",
    "Every history up to the stated depth over stems of every length class (1 block, 75..148, exact multiples of 74, 3 blocks) and over re-submissions of known pages, prefixes and rule anchors; in every state both store sizes are compared with the closed-form count, the raw decoder checks that no block or stub is unreferenced, and metrics() is compared with the same figures.",
    "DESIGN.md 6/C19")

add("C04", "H", "explicit-state BFS over API histories of the real Traph (bounded depth, exhaustive), lock-step reference model",
    "Every history up to the stated depth over creations, deletions (full, partial, wrong id), prefix additions, removals and moves (no / right / wrong id) on nested and sibling prefixes, plus automatic creations; in every state the attached-prefix map and the resolution of 22 probe LRUs (stored, partially stored, absent, diverging left/right) are compared with longest-prefix match on a dict, and every refusal is checked on every transition. Also: single resolution queries as letters (the oracle re-issues the last one first), refused partial deletions, ids beyond 256 and caller-chosen ids, prefixes on multi-block stems, a latin-1 index driven with str arguments.",
    "DESIGN.md 6/C04")

REL = "explicit-state BFS over API histories of the real Traph (bounded depth, exhaustive); relational oracle between independent query paths of the same state"
add("C05", "H", REL,
    "Every history up to the stated depth over pages, link batches, prefix edits (nested, sibling, multi-prefix, a webentity nested in itself) and a rule; in every state, for every webentity and every order of its prefix list, the page listing is compared with {pages whose resolution returns it}, with crawled marks, and the union over webentities with the pages that resolve at all.",
    "DESIGN.md 6/C05")
add("C07", "H", REL,
    "In every state of the same search the webentity network (both directions, self-links on/off, fast and memory-light variants, aliases) is compared with the page links of every page aggregated through top-down resolution of both ends; inbound must be the transpose of outbound; crawled/uncrawled tallies are compared with the pages resolving to each webentity.",
    "DESIGN.md 6/C07")
add("C08", "H", REL,
    "In every state of the same search, for every webentity, prefix order and each of the 7 switch settings, the per-webentity page links are compared as a multiset with the page links of its pages classified through resolution; the all-false setting must be refused; cited/citing sets and degrees are compared with the resolution of the other link ends.",
    "DESIGN.md 6/C08")
add("C13", "H", REL,
    "Every history up to the stated depth that inserts pages first (unmarked paths) and then attaches prefixes by every route (explicit creation, automatic creation, rule installation, prefix addition, move) in every order over C1 < A < Ax < Axy, Aw, S; in every state parents and children of every webentity are compared with the attached-prefix map.",
    "DESIGN.md 6/C13")
add("C20", "H", REL,
    "Every history up to the stated depth over link batches giving indegrees 0..3 with ties, self-links and repeated links, pages at depths 0..2 under several prefixes; in every state, for every webentity, k in {1,2,3,4,10} and depth limit in {None,0,1,2}, the answer is judged against the number of distinct sources taken from the page links (length, eligibility, order, values, nothing larger omitted). Known finding: unlinked pages are reported with indegree 1. Part B: most-linked queries interleaved with crawl batches and with other traversals (engine S); the interleaved answer (read-only combinations) and a fresh answer after completion are judged against the page links. Lifecycle space with 70-node lists around clear / reopen.",
    "DESIGN.md 6/C20")

add("C06", "H", "explicit-state BFS over API histories of the real Traph in 9 rule configurations (bounded depth, exhaustive), lock-step reference ladder",
    "For 3 default rules x 3 anchored rule sets, every history up to the stated depth over pages at/above/below every anchor (https and www variants first), creations, deletions, rule installation/removal and reopen; on every transition the reported creations are compared with the reference ladder (E, K, variations not already owned) and the page must resolve to max(E,K); in every state the potential prefix of 17 probes is compared and must leave the stores untouched; a rule installation must match re-insertion of the pages beneath the anchor in some order (all permutations).",
    "DESIGN.md 6/C06")
TWIN = "explicit-state BFS over API histories of the real Traph (bounded depth, exhaustive) with a twin index run in lock-step"
add("C11", "H", TWIN,
    "Every history up to the stated depth with reopen and clear as ordinary letters (any position, any number of times); at a reopen: file sizes are whole blocks, bytes and the ~230-answer observation vector are identical before/after; after every later request, reports, bytes and observation vector equal those of a twin that was never closed; after clear they equal those of a freshly created index with the given rules, and keep doing so. Also: every sequence (no merging) over a small alphabet, abandoned crawl batches, letter case across reopen, rule anchors handed over as str.",
    "DESIGN.md 6/C11")
add("C12", "H", "explicit-state BFS over API histories of the real Traph (bounded depth, exhaustive), lock-step record of every id issued",
    "Every history up to the stated depth over creations (one and several prefixes, refused), deletions, automatic creations, rule installations creating several webentities, reopen and clear; on every transition every reported id must be greater than every id reported since creation/clear, and every prefix the request attached must carry it. Also: every sequence (no merging) over creations, deletions, the two forms of clear, reopen and an abandoned batch.",
    "DESIGN.md 6/C12")
add("C15", "H", TWIN,
    "Every history up to the stated depth (multi-block stems, constructor rules, overwrite flag on/off) runs on an in-memory and on a fresh on-disk index; per request the reports/exceptions, per state the bytes of both stores and the observation vector must be identical, and the blocks read through FileStorage.map() right after the request must equal the store's blocks.",
    "DESIGN.md 6/C15")

add("C09", "H+P+E", "explicit-state BFS over API histories (engine H) x exhaustive enumeration of pagination chains, incl. every placement of <=2 (thorough 3) interleaved insertions replayed from scratch (engine P); exhaustive token text round trip",
    "On every state of a bounded BFS, for every webentity, prefix order, page size and crawled-only setting the token chain is followed to the end and compared with the unpaginated page set, the prescribed order, the exact answer sizes and counts. On three base states every chain with up to 2 (3) page insertions placed at any token boundaries is executed on a fresh index: nothing may repeat, nothing that stayed in the webentity throughout may be skipped. Tokens round-trip for every (index<=5, path in {1,2,3}^<=8). Also: sibling stems sharing their first 74 bytes, 40 siblings in ascending order (40-step token paths), a 12-prefix webentity, token indexes 0..130.",
    "DESIGN.md 6/C09")
add("C10", "H", "explicit-state BFS over API histories of the real Traph (bounded depth, exhaustive) x exhaustive enumeration of pagination chains on every state",
    "On every state of a bounded BFS over link batches and prefix layouts (link-less pages between link-bearing ones, prefixes without link-bearing page, sources whose links all fail the switches), for every webentity, up to 6 prefix orders, source-page counts 1..3(4) and the three switch settings, the token chain is followed to the end: every token must resume, every non-final answer covers exactly the requested number of link-bearing sources, counts match, and the multiset union equals the unpaginated answer. Also: three paginations with different switches advanced in turns, a 12-prefix webentity, every route that changes the prefix map between two paginations.",
    "DESIGN.md 6/C10")
add("C14", "H", "explicit-state BFS over API histories of the real Traph (bounded depth, exhaustive) x the complete read-only API menu on every state",
    "On every state of a bounded BFS (file and memory back-ends, roots R0-R4, multi-block stems) every call of the read-only menu (~600 calls per state: every public query, all switch settings, present/absent/diverging LRUs, known/unknown webentities, right/wrong/absent prefixes, pagination chains, partially drained iterators) is bracketed by a byte comparison of both stores. Also: states reached by reopening without re-supplying the rules, and (part F) the read-only menu on every reopened cut of torn write histories with multi-block stems.",
    "DESIGN.md 6/C14")

add("C17", "E", "exhaustive enumeration of a bounded LRU grammar + closure of the variation graph (states = LRUs, transitions = variation edges); one fresh real index per class member",
    "Every one of the 9 288 (thorough: 55 728) words of the grammar and every member of every result is expanded by the real helper: no failure, self first, no duplicate, only the scheme stem / trailing www host change (checked on stems), scheme variation present, and expanding any member gives the same set. Then for each class a page of each member is inserted first into a fresh index and the attached prefix sets are compared.",
    "DESIGN.md 6/C17")
add("C18", "F", "enumeration of every prefix of the program-ordered write log (block and byte granular) of every history up to a depth bound, real reopen after each cut",
    "Every history up to the stated depth over pages (short, 75- and 149-byte stems, automatic webentity with variations), link and crawl batches, webentity creation and rule installation is executed on logging file objects; for every cut inside the last request (and byte cuts of appends) both files are materialised and reopened with the real constructor: either refused with the library's own error for a stated reason (partial block, one store missing) or the whole query battery runs without failure and reports only pages and links (with weights <=) of the completed history.",
    "DESIGN.md 6/C18", category="fault_enumeration",
    note="trusted base: CPython 3.12, tmpfs file semantics; fault model exactly as the property states it (program-order prefix of writes, atomic in-place block rewrites, byte-granular appends); OS-level reordering is out of scope")

add("C16", "S", "stateless exploration of every interleaving of generator steps under a harness-owned scheduler with iterative preemption bounding (pairs unbounded unless stated, triples bounded), each schedule run to completion on the real Traph",
    "Crawl batches, rule installations, page / page-link / network / most-linked queries are created on one shared index and advanced one next() at a time with every loop iteration a yield point. For every schedule: no request fails, final pages and link multigraph equal those of the requests applied one after another, inbound/outbound sides agree, and every query answer lies between the intersection and the union of the same query run atomically at every step boundary of its lifetime. Two known findings (walks are not snapshot-isolated) are classified by narrow signatures.",
    "DESIGN.md 6/C16",
    note="trusted base: CPython 3.12, the harness scheduler (one step = one next()), the stated participant menu and preemption bounds; generator-level interleaving only (the library has no threads)")
