add("C01", "H", "explicit-state BFS over API histories of the real Traph (bounded depth, exhaustive), lock-step reference model",
    "Every history up to the stated depth over a colliding alphabet (pages, batches, link/crawl batches, webentity and rule edits, all insertion orders of short and multi-block stems) is executed on the real index; page enumeration, counts and write reports are compared with a dict model in every state and on every transition.",
    "DESIGN.md 6/C01")
