#!/usr/bin/env python3
"""tools/seeded.py <ID> [k ...] [--checks C01,C02]

Confirm and file the seeded changes a sub-agent left in /tmp/seed/<ID>/ (changeK.diff,
demoK.py, notesK.md):
  1. in a scratch copy of /repo's working tree: the patch applies, the baseline suite passes
     with it, the demo FAILS with it and PASSES without it;
  2. run the target check (and companions) against the patched copy (VERIF_REPO);
  3. store /verif/seeded/<ID>-<k>/{patch.diff, demo.py, notes.md, meta.json}.
Nothing is applied to /repo itself."""
import json
import os
import re
import shutil
import subprocess
import sys
import time

PY = "/venv/bin/python"


def sh(cmd, cwd=None, env=None, timeout=3600):
    p = subprocess.run(cmd, shell=True, cwd=cwd, env=env, capture_output=True, text=True, timeout=timeout)
    return p.returncode, (p.stdout + p.stderr)


def copy_repo(dst):
    shutil.rmtree(dst, ignore_errors=True)
    os.makedirs(dst)
    rc, out = sh("git ls-files -z | xargs -0 cp --parents -t %s" % dst, cwd="/repo")
    assert rc == 0, out


def main():
    args = sys.argv[1:]
    pid = args[0]
    checks = None
    ks = []
    srcdir = None
    label = None
    multi = False
    fast = False
    i = 1
    while i < len(args):
        if args[i] == "--checks":
            checks = args[i + 1].split(",")
            i += 2
        elif args[i] == "--src":  # second-wave layout: --src /tmp/seed2/Ca_Cb --label W2 <k>
            srcdir = args[i + 1]
            i += 2
        elif args[i] == "--label":
            label = args[i + 1]
            i += 2
        elif args[i] == "--fast":  # target check (+ extras of seed_extra.txt) only, no companions
            fast = True
            i += 1
        elif args[i] == "--multi":  # several changes of one property under one label: <label>-<pid>-<k>
            multi = True
            i += 1
        else:
            ks.append(int(args[i]))
            i += 1
    src = srcdir or "/tmp/seed/%s" % pid
    if not ks:
        ks = [k for k in (1, 2, 3) if os.path.exists("%s/change%d.diff" % (src, k)) or os.path.exists("/verif/seeded/%s-%d/patch.diff" % (pid, k))]
    if checks is None:
        comp = {}
        for line in open("/verif/tools/companions.txt"):
            a, b = line.strip().split(":")
            comp[a] = b.split()
        checks = [pid] + ([] if fast else comp.get(pid, []))
        extra = {}
        if os.path.exists("/verif/tools/seed_extra.txt"):
            for line in open("/verif/tools/seed_extra.txt"):
                if ":" in line and not line.startswith("#"):
                    a, b = line.strip().split(":")
                    extra[a.strip()] = b.split()
        key = "%s-%s" % (label, pid) if label else None
        checks_by_k = extra
    for k in ks:
        if "checks_by_k" in dir():
            name = (("%s-%s-%d" % (label, pid, k)) if multi else ("%s-%s" % (label, pid))) if label else "%s-%d" % (pid, k)
            for c in checks_by_k.get(name, []):
                if c not in checks:
                    checks = checks + [c]
        patch = "%s/change%d.diff" % (src, k)
        demo = "%s/demo%d.py" % (src, k)
        notes = "%s/notes%d.md" % (src, k)
        filed = "/verif/seeded/%s-%d" % (pid, k) if not label else ("/verif/seeded/%s-%s-%d" % (label, pid, k) if multi else "/verif/seeded/%s-%s" % (label, pid))
        if not os.path.exists(patch):  # scratch worktree already removed: use the filed copy
            patch, demo, notes = filed + "/patch.diff", filed + "/demo.py", filed + "/notes.md"
        M = "/dev/shm/traph-seeded-%s-%d-%d" % (pid, k, os.getpid())
        OUT = M + "-out"
        meta = {"property": pid, "k": k, "ran": []}
        try:
            copy_repo(M)
            # demo on the clean copy
            dtxt = open(demo).read().replace(src, M)
            for old in re.findall(r"/tmp/seed2?/[A-Za-z0-9_]+", dtxt):
                dtxt = dtxt.replace(old, M)
            open(M + "/_demo.py", "w").write(dtxt)
            rc_clean, out_clean = sh("%s _demo.py" % PY, cwd=M, timeout=600)
            rc, out = sh("git apply --unsafe-paths --directory=%s %s || patch -p1 -s -d %s < %s" % (M, patch, M, patch))
            if rc != 0:
                print("SEEDED %s-%d: patch does not apply: %s" % (pid, k, out[-300:]))
                continue
            rc_t, out_t = sh("%s -m pytest -q -p no:cacheprovider" % PY, cwd=M, timeout=900)
            tests_ok = rc_t == 0 and " passed" in out_t and "failed" not in out_t.splitlines()[-1]
            shutil.rmtree(M + "/test/temp", ignore_errors=True)
            rc_mut, out_mut = sh("%s _demo.py" % PY, cwd=M, timeout=600)
            meta["tests_pass_with_change"] = tests_ok
            meta["tests_tail"] = out_t.strip().splitlines()[-1] if out_t.strip() else ""
            meta["demo_exit_without_change"] = rc_clean
            meta["demo_exit_with_change"] = rc_mut
            meta["demo_message_with_change"] = out_mut.strip()[-400:]
            valid = tests_ok and rc_clean == 0 and rc_mut != 0
            meta["confirmed"] = valid
            results = {}
            for c in checks:
                t0 = time.time()
                env = dict(os.environ, VERIF_REPO=M, VERIF_OUT=OUT)
                c, _, tier = c.partition("@")
                tier = tier or "quick"
                rc_c, out_c = sh("./check %s %s" % (c, tier), cwd="/verif", env=env, timeout=14400)
                if tier != "quick":
                    c = c + "@" + tier
                first = ""
                for line in out_c.splitlines():
                    if "oracle=" in line:
                        first = line.strip()[:400]
                        break
                results[c] = {"exit": rc_c, "seconds": round(time.time() - t0, 1), "first_violation": first}
                meta["ran"].append("VERIF_REPO=<patched copy> ./check %s -> exit %d" % (c.replace("@", " "), rc_c))
            meta["checks"] = results
            meta["caught_by"] = [c for c, r in results.items() if r["exit"] == 1]
            dst = filed
            os.makedirs(dst, exist_ok=True)
            if os.path.dirname(patch) != dst:
                shutil.copy(patch, dst + "/patch.diff")
                shutil.copy(demo, dst + "/demo.py")
                if os.path.exists(notes):
                    shutil.copy(notes, dst + "/notes.md")
            if os.path.exists(notes):
                meta["needs_to_manifest"] = open(notes).read().strip()[:1500]
            meta["source"] = "independent sub-agent given only the property text and a scratch worktree"
            json.dump(meta, open(dst + "/meta.json", "w"), indent=1)
            print("SEEDED %s-%d confirmed=%s tests=%s demo(clean/changed)=%s/%s caught_by=%s  %s" % (pid, k, valid, meta["tests_tail"], rc_clean, rc_mut, meta["caught_by"], {c: (r["exit"], r["seconds"]) for c, r in results.items()}))
            for c, r in results.items():
                if r["exit"] == 1:
                    print("     %s: %s" % (c, r["first_violation"][:260]))
                if r["exit"] == 2:
                    print("     %s: HARNESS ERROR" % c)
        finally:
            shutil.rmtree(M, ignore_errors=True)
            shutil.rmtree(OUT, ignore_errors=True)


if __name__ == "__main__":
    main()
