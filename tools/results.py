#!/usr/bin/env python3
"""tools/results.py  - rebuild seeded/RESULTS.md from seeded/*/meta.json and
mutants/RESULTS.md from mutants/*.log (lines written by tools/mutant.sh)."""
import glob
import json
import os
import re

V = "/verif"


def seeded():
    rows = []
    for d in sorted(glob.glob(V + "/seeded/*/meta.json")):
        m = json.load(open(d))
        name = os.path.basename(os.path.dirname(d))
        notes = (m.get("needs_to_manifest") or "").replace("\n", " ")
        notes = re.sub(r"\s+", " ", notes)[:260]
        checks = m.get("checks", {})
        cell = ", ".join("%s:%s" % (c, {0: "silent", 1: "VIOLATION", 2: "harness-error"}.get(r["exit"], r["exit"])) for c, r in checks.items())
        first = ""
        for c in m.get("caught_by", []):
            first = "%s: %s" % (c, checks[c]["first_violation"][:200])
            break
        rows.append((name, m["property"], m.get("confirmed"), cell, first, notes))
    out = [
        "# Seeded property-breaking changes (independent sub-agents)\n",
        "Each change was written by a fresh sub-agent that saw only the text of one property and a scratch",
        "worktree of the repository (nothing from /verif). Confirmed here before being kept: the patch applies,",
        "the repository's 31 tests still pass with it, the agent's demonstration fails with it and passes without it.",
        "`checks` = exit status of `./check <ID> quick` run against a patched scratch copy (VERIF_REPO).\n",
        "| change | property | confirmed | checks run (quick tier) | first violation reported by the target check |",
        "|---|---|---|---|---|",
    ]
    caught = 0
    for name, prop, conf, cell, first, notes in rows:
        out.append("| %s | %s | %s | %s | %s |" % (name, prop, conf, cell, first.replace("|", "\\|")))
        if "VIOLATION" in cell:
            caught += 1
    out.append("\n%d changes, %d caught by at least one check.\n" % (len(rows), caught))
    out.append("## What each change needs in order to manifest (from the authors' notes)\n")
    for name, prop, conf, cell, first, notes in rows:
        out.append("* **%s** - %s" % (name, notes))
    open(V + "/seeded/RESULTS.md", "w").write("\n".join(out) + "\n")
    return len(rows), caught


def mutants():
    lines = []
    for f in sorted(glob.glob(V + "/mutants/*.log")):
        for line in open(f):
            if line.startswith("MUTANT "):
                lines.append(line.strip())
    latest = {}
    for l in lines:
        latest[l.split()[1]] = l
    out = ["# Own mutants (realistic single-site changes; see DESIGN.md section 9)\n", "Lines as printed by tools/mutant.sh: tests=pass means the repository's suite still passes with the mutant;", "rc=1 the check reports a VIOLATION, rc=0 it stays silent.\n", "```"]
    out += [latest[k] for k in sorted(latest)]
    out.append("```")
    open(V + "/mutants/RESULTS.md", "w").write("\n".join(out) + "\n")


if __name__ == "__main__":
    print(seeded())
    mutants()
