#!/bin/bash
# tools/runall.sh [quick|thorough] : run every check on the current tree, print one line each
TIER=${1:-quick}
cd /verif
for i in $(seq -w 1 20); do
  S=$(date +%s); OUT=$(./check C$i $TIER 2>&1); RC=$?; E=$(( $(date +%s) - S ))
  echo "C$i rc=$RC ${E}s $(echo "$OUT" | tail -1 | cut -c1-150)"
  [ $RC != 0 ] && echo "$OUT" | grep -m3 "oracle=\|HARNESS" | cut -c1-300
done
exit 0
