#!/usr/bin/env python3
"""tools/mkmut.py <name> <file relative to /repo> <line> <old> <new>  -> /verif/mutants/<name>.diff
Replaces `old` by `new` on the given line of the file (working tree restored afterwards)."""
import subprocess, sys
name, rel, line, old, new = sys.argv[1:6]
p = "/repo/" + rel
src = open(p).read().split("\n")
i = int(line) - 1
if old not in src[i]:  # tolerate small line shifts
    cands = [j for j in range(max(0, i - 8), min(len(src), i + 9)) if old in src[j]]
    assert cands, (src[i], old)
    i = min(cands, key=lambda j: abs(j - i))
orig = "\n".join(src)
src[i] = src[i].replace(old, new, 1)
open(p, "w").write("\n".join(src))
d = subprocess.run(["git", "-C", "/repo", "diff"], capture_output=True, text=True).stdout
open(p, "w").write(orig)
open("/verif/mutants/%s.diff" % name, "w").write(d)
print(d)
