#!/usr/bin/env python3
"""tools/mkmut.py <name> <file relative to /repo> <line> <old> <new>  -> /verif/mutants/<name>.diff
Replaces `old` by `new` on the given line of the file (working tree restored afterwards)."""
import subprocess, sys
name, rel, line, old, new = sys.argv[1:6]
p = "/repo/" + rel
src = open(p).read().split("\n")
i = int(line) - 1
assert old in src[i], (src[i], old)
orig = "\n".join(src)
src[i] = src[i].replace(old, new, 1)
open(p, "w").write("\n".join(src))
d = subprocess.run(["git", "-C", "/repo", "diff"], capture_output=True, text=True).stdout
open(p, "w").write(orig)
open("/verif/mutants/%s.diff" % name, "w").write(d)
print(d)
