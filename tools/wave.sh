#!/bin/bash
# tools/wave.sh <results-file> <mutant-glob...>   — run each mutant against the checks named in
# its file name (…-cNN-…) plus the companions listed in tools/companions.txt; append result lines.
OUT=$1; shift
for m in "$@"; do
  b=$(basename "$m" .diff)
  tgt=$(echo "$b" | grep -o 'c[0-9][0-9]' | head -1 | tr c C)
  extra=$(grep "^$tgt:" /verif/tools/companions.txt 2>/dev/null | cut -d: -f2)
  /verif/tools/mutant.sh "$m" $tgt $extra 2>&1 | tee -a "$OUT"
done
