#!/bin/bash
# tools/seeded_wave.sh <dir with Ca_Cb worktrees> <label> : confirm + run target check and companions
D=$1; L=$2
cd /verif
for d in $D/C*_C*; do
  [ -d "$d" ] || continue
  pair=$(basename $d); a=${pair%_*}; b=${pair#*_}
  [ -f $d/change1.diff ] && python3 tools/seeded.py $a 1 --src $d --label $L 2>&1 | grep -v "^WARNING" | cut -c1-330
  [ -f $d/change2.diff ] && python3 tools/seeded.py $b 2 --src $d --label $L 2>&1 | grep -v "^WARNING" | cut -c1-330
done
