#!/usr/bin/env python3
"""Regenerate MANIFEST.json from the per-property table below (kept valid at all times)."""
import json, os, sys
HERE = os.path.dirname(os.path.dirname(os.path.abspath(__file__)))
BASELINE = "cd /repo && /venv/bin/python -m pytest -ra -q -p no:cacheprovider --timeout=900 --continue-on-collection-errors"
TRUST = "trusted base: CPython 3.12 (/venv), tmpfs file semantics, the reference model in mc/model.py and the stated bounds (alphabet, depth); exhaustive within those bounds only"

# id -> (engine, category, technique, text, design_ref)
CHECKS = {}
def add(pid, engine, technique, text, ref, category="model_checking", note=TRUST):
    CHECKS[pid] = dict(engine=engine, technique=technique, text=text, ref=ref, category=category, note=note)

exec(open(os.path.join(HERE, "tools", "manifest_table.py")).read())

ALL = ["C%02d" % i for i in range(1, 21)]
NA = json.load(open(os.path.join(HERE, "tools", "not_applicable.json")))
doc = {
    "version": 1,
    "setup_cmd": "cd /verif && /venv/bin/python -m compileall -q mc >/dev/null 2>&1; /venv/bin/python -c \"import sys; sys.path.insert(0,'/repo'); import traph\"",
    "hooks": {
        "guard": "HYPHE_TRAPH_VERIF",
        "enable": "none needed: all interposition is harness-side (traph.traph.open and TraphIteratorState.should_yield are replaced at import time by mc/env.py); no source hook exists in /repo",
        "baseline_off_cmd": BASELINE,
        "source_commits": [],
        "add_only": True,
    },
    "engines": [
        {"name": "H", "path": "mc/engine_h.py", "kind_free_text": "explicit-state BFS over API histories of the real implementation, state key = bytes of both stores + model state", "serves_properties": sorted(p for p, c in CHECKS.items() if "H" in c["engine"])},
    ],
    "checks": [],
    "notes": "All checks run /venv/bin/python on the current working tree of /repo (VERIF_REPO overrides, used only by the mutant driver). See DESIGN.md.",
    "not_applicable": [x for x in NA if x["property_id"] not in CHECKS],
}
EXTRA_ENGINES = {
    "P": ("mc/engine_p.py", "exhaustive enumeration of pagination protocols (page sizes, token chains, interleaved writes)"),
    "S": ("mc/engine_s.py", "stateless preemption-bounded exploration of generator interleavings under a harness-owned scheduler"),
    "F": ("mc/engine_f.py", "enumeration of every prefix (block and byte granular) of the program-ordered write log, then real reopen"),
    "E": ("mc/engine_e.py", "exhaustive enumeration of a bounded input grammar plus graph closure"),
}
for k, (path, txt) in EXTRA_ENGINES.items():
    served = sorted(p for p, c in CHECKS.items() if k in c["engine"].split("+"))
    if served and os.path.exists(os.path.join(HERE, path)):
        doc["engines"].append({"name": k, "path": path, "kind_free_text": txt, "serves_properties": served})
for pid in ALL:
    c = CHECKS.get(pid)
    if not c:
        continue
    doc["checks"].append({
        "property_id": pid,
        "quick_cmd": "./check %s quick" % pid,
        "thorough_cmd": "./check %s thorough" % pid,
        "evidence_file": "/verif/evidence/%s.json" % pid,
        "replay_cmd_template": "./check %s --replay {path}" % pid,
        "engine": c["engine"],
        "level_claimed": {"category": c["category"], "text": c["text"], "design_ref": c["ref"]},
        "level_note": c["note"],
        "technique": c["technique"],
    })
json.dump(doc, open(os.path.join(HERE, "MANIFEST.json"), "w"), indent=1)
print("MANIFEST.json: %d checks, %d not_applicable" % (len(doc["checks"]), len(doc["not_applicable"])))
