#!/bin/bash
# tools/mutant.sh <patch.diff> <ID> [<ID>...]   (env TIER=quick|thorough, KEEP=1)
# Applies a patch to a scratch copy of /repo, confirms the baseline suite still passes,
# runs the given checks against the copy (VERIF_REPO) and reports which of them fire.
set -u
PATCH=$(realpath "$1"); shift
TIER=${TIER:-quick}
M=/dev/shm/traph-mutant-$$
OUT=/dev/shm/traph-mutant-out-$$
rm -rf "$M" "$OUT"; mkdir -p "$M" "$OUT"
( cd /repo && git ls-files -z | xargs -0 cp --parents -t "$M" ) 
# working-tree state of tracked files (includes uncommitted edits)
cd "$M" || exit 2
if ! git apply --unsafe-paths --directory="$M" "$PATCH" 2>/dev/null; then
  if ! patch -p1 -s < "$PATCH"; then echo "MUTANT $(basename $PATCH): patch does not apply"; rm -rf "$M" "$OUT"; exit 2; fi
fi
T=$(cd "$M" && /venv/bin/python -m pytest -q -p no:cacheprovider -x 2>&1 | tail -1)
case "$T" in *passed*) case "$T" in *failed*) TESTS="FAIL";; *) TESTS="pass";; esac;; *) TESTS="FAIL";; esac
rm -rf "$M/test/temp" 
RES=""
for ID in "$@"; do
  S=$(date +%s)
  OUTTXT=$(cd /verif && VERIF_REPO="$M" VERIF_OUT="$OUT" ./check "$ID" "$TIER" 2>&1); RC=$?
  E=$(( $(date +%s) - S ))
  FIRST=$(echo "$OUTTXT" | grep -m1 "oracle=" | cut -c1-220)
  RES="$RES $ID:rc=$RC(${E}s)"
  [ -n "${VERBOSE:-}" ] && echo "$OUTTXT" | tail -8
  [ "$RC" = 1 ] && echo "    $ID -> $FIRST"
  [ "$RC" = 2 ] && echo "$OUTTXT" | grep -m3 "HARNESS-ERROR\|Error\|error" | cut -c1-200
done
echo "MUTANT $(basename "$PATCH") tests=$TESTS ($T) :$RES"
[ -z "${KEEP:-}" ] && rm -rf "$M" "$OUT"
