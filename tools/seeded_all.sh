#!/bin/bash
# tools/seeded_all.sh : re-run every filed seeded change against its target check + companions
# FASTARG=--fast : target check + the extra checks of tools/seed_extra.txt only
cd /verif
for d in seeded/*/; do
  n=$(basename $d)
  case $n in
    W*-C*-[0-9]) label=${n%%-*}; rest=${n#*-}; pid=${rest%-*}; k=${rest#*-}; python3 tools/seeded.py $pid $k --label $label --multi $FASTARG 2>&1 | grep -a "^SEEDED\|HARNESS" ;;
    W*) pid=${n#*-}; label=${n%%-*}; python3 tools/seeded.py $pid 1 --label $label $FASTARG 2>&1 | grep -a "^SEEDED\|HARNESS" ;;
    *)  pid=${n%-*}; k=${n#*-}; python3 tools/seeded.py $pid $k $FASTARG 2>&1 | grep -a "^SEEDED\|HARNESS" ;;
  esac
done
